// Generic accessor sweep: describe_as<I>(node) calls EVERY accessor of interface I (primitives, the virtual
// extras, and the common accessors of Expr / Classic / Type / Directive / Stmt / Decl) and renders the results into
// a fingerprint string.  Templates and inline functions only; the dispatcher (observe) lives in zoo/zoo.cpp.  Used by C05 (stability), C14 (every accessor returns or throws logic_error), C20 (traces).
#ifndef VERIF_ZOO_DESCRIBE_HPP
#define VERIF_ZOO_DESCRIBE_HPP

#include "zoo/zoo.hpp"

namespace zoo {
   inline std::string hex(std::u8string_view w)
   {
      std::string s;
      for (char8_t c : w.substr(0, 24)) {
         if (c >= 0x20 and c < 0x7f) s += char(c);
         else { char b[8]; std::snprintf(b, sizeof b, "\\%02x", unsigned(c)); s += b; }
      }
      if (w.size() > 24) s += "..+" + std::to_string(w.size() - 24);
      return s;
   }

   template<class T> std::string render(Ctx& c, const T& v);

   // Sequence rendering; with out_of_range_probes also exercises positions at and beyond size().
   template<class T>
   std::string render_seq(Ctx& c, const ipr::Sequence<T>& s)
   {
      const std::size_t n = s.size();
      std::string r = "[" + std::to_string(n) + ":";
      std::size_t k = 0;
      for (auto it = s.begin(); it != s.end() and k < 6; ++it, ++k) r += render(c, *it) + ",";
      if (n > 6) r += ".." + render(c, *s.position(n - 1));
      r += "]";
      if (c.out_of_range_probes) {
         std::size_t visited = 0;
         for (auto it = s.begin(); it != s.end() and visited <= n + 1; ++it) {
            if (&*it != &*s.position(visited)) c.probe.bad.push_back({ c.probe.current_accessor, "iteration disagrees with positional access at " + std::to_string(visited) });
            ++visited;
         }
         if (visited != n) c.probe.bad.push_back({ c.probe.current_accessor, "iteration visited " + std::to_string(visited) + " elements of " + std::to_string(n) });
         // the other three ways of walking: `*it++`, backwards with `--it`, backwards with `it--`
         try {
            std::size_t k = 0;
            for (auto it = s.begin(); it != s.end() and k <= n + 1; ++k) {
               const T& m = *it++;
               if (&m != &*s.position(k)) { c.probe.bad.push_back({ c.probe.current_accessor, "iteration with *it++ disagrees with positional access at " + std::to_string(k) }); break; }
            }
            if (k != n) c.probe.bad.push_back({ c.probe.current_accessor, "iteration with *it++ visited " + std::to_string(k) + " elements of " + std::to_string(n) });
            k = n;
            for (auto it = s.end(); it != s.begin() and k > 0; ) {
               --it; --k;
               if (&*it != &*s.position(k)) { c.probe.bad.push_back({ c.probe.current_accessor, "backward iteration with --it disagrees with positional access at " + std::to_string(k) }); break; }
            }
            if (k != 0) c.probe.bad.push_back({ c.probe.current_accessor, "backward iteration with --it stopped at " + std::to_string(k) });
            k = n;
            for (auto it = s.end(); it != s.begin() and k > 0; ) {
               auto old = it--; --k;
               if (not (old == s.position(k + 1)) or &*it != &*s.position(k)) { c.probe.bad.push_back({ c.probe.current_accessor, "backward iteration with it-- disagrees with positional access at " + std::to_string(k) }); break; }
            }
            if (k != 0) c.probe.bad.push_back({ c.probe.current_accessor, "backward iteration with it-- stopped at " + std::to_string(k) });
         }
         catch (const std::exception& e) { c.probe.bad.push_back({ c.probe.current_accessor, std::string("walking a sequence within its bounds throws: ") + e.what() }); }
         // at and beyond size(); the extremes; and positions whose low 8 / 16 / 31 / 32 / 33 bits fall back into range
         std::vector<std::size_t> beyond{ n, n + 1, n + 2, std::size_t(-1), std::size_t(-1) / 2, (std::size_t(1) << 32) + n };
         for (int bits : { 8, 16, 31, 32, 33, 48, 63 }) {
            const std::size_t base = std::size_t(1) << bits;
            if (base >= n) { beyond.push_back(base); if (n > 0) beyond.push_back(base + n - 1); beyond.push_back(base * 2 + (n > 1 ? 1 : 0)); }
         }
         for (std::size_t idx : beyond) {
            if (idx < n) continue;
            ++c.probe.calls;
            try {
               (void) &*s.position(idx);
               c.probe.bad.push_back({ c.probe.current_accessor, "element " + std::to_string(idx) + " of a sequence of size " + std::to_string(n) + " was returned" });
            }
            catch (const std::logic_error&) { ++c.probe.refused; }
            catch (const std::exception& e) { c.probe.bad.push_back({ c.probe.current_accessor, std::string("out-of-range access throws a non-logic_error: ") + e.what() }); }
            catch (...) { c.probe.bad.push_back({ c.probe.current_accessor, "out-of-range access throws an unknown exception" }); }
         }
      }
      return r;
   }

   inline std::string render_logo(const ipr::Logogram& l) { return "'" + hex(l.what().characters()) + "'"; }

   template<class T>
   std::string render(Ctx& c, const T& v)
   {
      using U = std::remove_cvref_t<T>;
      if constexpr (std::is_base_of_v<ipr::Node, U>) {
         // an accessor whose return type is a leaf interface must hand out a node of that very category (C14: a reference
         // bound to a node of another kind is undefined behaviour waiting for the first virtual call)
         if constexpr (requires { leaf_of<U>::value; })
            if (v.category != leaf_code[leaf_of<U>::value])
               c.probe.bad.push_back({ c.probe.current_accessor, std::string("returned a node of category ") + std::to_string(int(v.category)) + " through a reference to " + leaf_name[leaf_of<U>::value] });
         return c.name_of(v);
      }
      else if constexpr (std::is_enum_v<U>) return std::to_string(static_cast<long long>(static_cast<std::underlying_type_t<U>>(v)));
      else if constexpr (std::is_same_v<U, bool>) return v ? "T" : "F";
      else if constexpr (std::is_integral_v<U>) return std::to_string(v);
      else if constexpr (std::is_same_v<U, ipr::util::word_view>) return "\"" + hex(v) + "\"";
      else if constexpr (std::is_same_v<U, ipr::Linkage>) return "L" + render_logo(v.language());
      else if constexpr (std::is_same_v<U, ipr::Calling_convention>) return "CC" + render_logo(v.name());
      else if constexpr (std::is_base_of_v<ipr::Transfer, U>) return "X(" + render_logo(v.linkage().language()) + "," + render_logo(v.convention().name()) + ")";
      else if constexpr (std::is_base_of_v<ipr::Logogram, U>) return render_logo(v);
      else if constexpr (std::is_same_v<U, ipr::Unit_location>) return "u" + std::to_string(unsigned(v.unit)) + ":" + std::to_string(unsigned(v.line)) + ":" + std::to_string(unsigned(v.column));
      else if constexpr (std::is_same_v<U, ipr::Source_location>) return "f" + std::to_string(unsigned(v.file)) + ":" + std::to_string(unsigned(v.line)) + ":" + std::to_string(unsigned(v.column));
      else if constexpr (std::is_same_v<U, ipr::Region::Location_span>) return render(c, v.first) + "-" + render(c, v.second);
      else if constexpr (requires { v.is_valid(); v.get(); }) return v.is_valid() ? render(c, v.get()) : std::string("-");
      else if constexpr (requires { v.size(); v.begin(); v.position(0); }) return render_seq(c, v);
      else if constexpr (std::is_same_v<U, ipr::Using_declaration::Designator>) return "D(" + render(c, v.path()) + "," + render(c, v.mode()) + ")";
      else if constexpr (std::is_same_v<U, ipr::Basic_specifier> or std::is_same_v<U, ipr::Basic_qualifier>) return render_logo(v.logogram());
      else {
         // polymorphic non-node artefact (token, attribute, capture, form, unit, substitution...): named if registered
         auto s = c.namer.of(static_cast<const void*>(&v));
         return s.empty() ? std::string("ext") : s;
      }
   }

   // Call one accessor: logic_error is a legitimate refusal; anything else is recorded for C14.
   template<class F>
   void field(Ctx& c, std::string& out, const char* name, F f)
   {
      ++c.probe.calls;
      c.probe.current_accessor = name;
      out += name;
      out += '=';
      try {
         out += f();
         ++c.probe.returned;
      }
      catch (const std::logic_error&) { out += "!L"; ++c.probe.refused; }
      catch (const std::exception& e) { out += "!X"; c.probe.bad.push_back({ name, std::string("throws a non-logic_error exception: ") + e.what() }); }
      catch (...) { out += "!?"; c.probe.bad.push_back({ name, "throws an unknown exception" }); }
      out += ';';
   }

#define VF_F(NAME, EXPR) field(c, o, NAME, [&]() -> std::string { return render(c, EXPR); })

   // ---- virtual extras per interface (everything not reachable through operand/first/second/third and the bases) ----
   inline void extras(Ctx&, std::string&, const ipr::Node&) { }
   inline void extras(Ctx& c, std::string& o, const ipr::String& x) { VF_F("characters", x.characters()); VF_F("size", x.size()); }
   inline void extras(Ctx& c, std::string& o, const ipr::Region& x)
   {
      VF_F("span", x.span()); VF_F("enclosing", x.enclosing()); VF_F("owner", x.owner()); VF_F("body", x.body());
      VF_F("bindings", x.bindings()); VF_F("global", x.global());
   }
   inline void extras(Ctx& c, std::string& o, const ipr::Overload& x)
   {
      VF_F("[int]", x[c.lex.int_type()]); VF_F("[T0]", x[*c.ty[0]]); VF_F("[void]", x[c.lex.void_type()]);
   }
   inline void extras(Ctx& c, std::string& o, const ipr::Scope& x)
   {
      VF_F("elements", x.elements()); VF_F("size", x.size()); VF_F("[N0]", x[*c.nm[0]]); VF_F("[never]", x[c.lex.get_identifier(u8"never-declared")]);
      // which declaration a name and a type select (the overload set itself is anonymous)
      field(c, o, "[N0][int]", [&]() -> std::string { auto ov = x[*c.nm[0]]; return ov.is_valid() ? render(c, ov.get()[c.lex.int_type()]) : std::string("-"); });
      field(c, o, "[N0][T0]", [&]() -> std::string { auto ov = x[*c.nm[0]]; return ov.is_valid() ? render(c, ov.get()[*c.ty[0]]) : std::string("-"); });
   }
   template<class M>
   void udt_extras(Ctx& c, std::string& o, const ipr::Udt<M>& x) { VF_F("region", x.region()); VF_F("scope", x.scope()); VF_F("members", x.members()); }
   inline void extras(Ctx& c, std::string& o, const ipr::Namespace& x) { udt_extras(c, o, x); }
   inline void extras(Ctx& c, std::string& o, const ipr::Union& x) { udt_extras(c, o, x); }
   inline void extras(Ctx& c, std::string& o, const ipr::Closure& x) { udt_extras(c, o, x); }
   inline void extras(Ctx& c, std::string& o, const ipr::Class& x) { udt_extras(c, o, x); VF_F("bases", x.bases()); }
   inline void extras(Ctx& c, std::string& o, const ipr::Enum& x) { udt_extras(c, o, x); VF_F("kind", x.kind()); VF_F("base", x.base()); }
   inline void extras(Ctx& c, std::string& o, const ipr::Product& x) { VF_F("size", x.size()); if (x.size() > 0) VF_F("[0]", x[0]); VF_F("[size]", x[x.size()]); }
   inline void extras(Ctx& c, std::string& o, const ipr::Sum& x) { VF_F("size", x.size()); if (x.size() > 0) VF_F("[0]", x[0]); VF_F("[size]", x[x.size()]); }
   inline void extras(Ctx& c, std::string& o, const ipr::Expr_list& x) { VF_F("size", x.size()); }
   inline void extras(Ctx& c, std::string& o, const ipr::Lambda& x)
   {
      VF_F("parameters", x.parameters()); VF_F("result", x.result()); VF_F("target", x.target()); VF_F("requirement", x.requirement());
      VF_F("attributes", x.attributes()); VF_F("eh_specification", x.eh_specification()); VF_F("specifiers", x.specifiers()); VF_F("captures", x.captures());
   }
   inline void extras(Ctx& c, std::string& o, const ipr::Id_expr& x) { VF_F("resolution", x.resolution()); }
   inline void extras(Ctx& c, std::string& o, const ipr::Enclosure& x) { VF_F("delimiters", x.delimiters()); }
   inline void extras(Ctx& c, std::string& o, const ipr::Binary_fold& x) { VF_F("operation", x.operation()); }
   inline void extras(Ctx& c, std::string& o, const ipr::Mapping& x) { VF_F("parameters", x.parameters()); VF_F("result", x.result()); }
   inline void extras(Ctx& c, std::string& o, const ipr::Instantiation& x) { VF_F("pattern", x.pattern()); VF_F("substitution", x.substitution()); VF_F("instance", x.instance()); }
   inline void extras(Ctx& c, std::string& o, const ipr::Requires& x) { VF_F("parameters", x.parameters()); VF_F("body", x.body()); }
   inline void extras(Ctx& c, std::string& o, const ipr::New& x) { VF_F("global_requested", x.global_requested()); VF_F("placement", x.placement()); VF_F("initializer", x.initializer()); }
   inline void extras(Ctx& c, std::string& o, const ipr::Static_assert& x) { VF_F("message", x.message()); VF_F("condition", x.condition()); }
   inline void extras(Ctx& c, std::string& o, const ipr::Parameter_list& x) { VF_F("region", x.region()); VF_F("level", x.level()); VF_F("elements", x.elements()); VF_F("size", x.size()); }
   inline void extras(Ctx& c, std::string& o, const ipr::Phased_evaluation& x) { VF_F("expression", x.expression()); }
   inline void extras(Ctx& c, std::string& o, const ipr::Specifiers_spread& x) { VF_F("specifiers", x.specifiers()); VF_F("targets", x.targets()); }
   inline void extras(Ctx& c, std::string& o, const ipr::Structured_binding& x)
   {
      VF_F("specifiers", x.specifiers()); VF_F("mode", x.mode()); VF_F("names", x.names()); VF_F("initializer", x.initializer()); VF_F("bindings", x.bindings());
   }
   inline void extras(Ctx& c, std::string& o, const ipr::Using_declaration& x) { VF_F("designators", x.designators()); }
   inline void extras(Ctx& c, std::string& o, const ipr::Using_directive& x) { VF_F("nominated_scope", x.nominated_scope()); }
   inline void extras(Ctx& c, std::string& o, const ipr::Pragma& x) { VF_F("incantation", x.incantation()); }
   inline void extras(Ctx& c, std::string& o, const ipr::Block& x) { VF_F("region", x.region()); VF_F("body", x.body()); VF_F("handlers", x.handlers()); VF_F("try_block", x.try_block()); }
   inline void extras(Ctx& c, std::string& o, const ipr::For& x) { VF_F("initializer", x.initializer()); VF_F("condition", x.condition()); VF_F("increment", x.increment()); VF_F("body", x.body()); }
   inline void extras(Ctx& c, std::string& o, const ipr::For_in& x) { VF_F("variable", x.variable()); VF_F("sequence", x.sequence()); VF_F("body", x.body()); }
   inline void extras(Ctx& c, std::string& o, const ipr::Break& x) { VF_F("from", x.from()); }
   inline void extras(Ctx& c, std::string& o, const ipr::Continue& x) { VF_F("iteration", x.iteration()); }
   inline void extras(Ctx& c, std::string& o, const ipr::Handler& x) { VF_F("exception", x.exception()); VF_F("body", x.body()); }
   inline void extras(Ctx& c, std::string& o, const ipr::Template& x)
   {
      VF_F("primary_template", x.primary_template()); VF_F("specializations", x.specializations()); VF_F("mapping", x.mapping());
      VF_F("parameters", x.parameters()); VF_F("result", x.result()); VF_F("definition", x.definition());
   }
   inline void extras(Ctx& c, std::string& o, const ipr::Enumerator& x) { VF_F("position", x.position()); }
   inline void extras(Ctx& c, std::string& o, const ipr::Base_type& x) { VF_F("position", x.position()); }
   inline void extras(Ctx& c, std::string& o, const ipr::Parameter& x) { VF_F("level", x.level()); VF_F("position", x.position()); VF_F("default_value", x.default_value()); }
   inline void extras(Ctx& c, std::string& o, const ipr::Fundecl& x) { VF_F("mapping", x.mapping()); VF_F("parameters", x.parameters()); VF_F("definition", x.definition()); }
   inline void extras(Ctx& c, std::string& o, const ipr::Var& x) { VF_F("definition", x.definition()); }
   inline void extras(Ctx& c, std::string& o, const ipr::Typedecl& x) { VF_F("definition", x.definition()); }
   inline void extras(Ctx& c, std::string& o, const ipr::Bitfield& x) { VF_F("precision", x.precision()); }

   template<class I>
   std::string describe_as(Ctx& c, const I& x)
   {
      std::string o = "cat=" + std::to_string(int(x.category)) + ";";
      if constexpr (requires { x.operand(); }) VF_F("operand", x.operand());
      if constexpr (requires { x.first(); }) { VF_F("first", x.first()); VF_F("second", x.second()); }
      if constexpr (requires { x.third(); }) VF_F("third", x.third());
      if constexpr (std::is_base_of_v<ipr::Expr, I>) VF_F("type", x.type());
      if constexpr (std::is_base_of_v<ipr::Classic, I>) VF_F("implementation", x.implementation());
      if constexpr (std::is_base_of_v<ipr::Type, I>) { VF_F("name", x.name()); VF_F("transfer", x.transfer()); VF_F("linkage", x.linkage()); }
      if constexpr (std::is_base_of_v<ipr::Directive, I>) VF_F("phases", x.phases());
      if constexpr (std::is_base_of_v<ipr::Stmt, I>) {
         VF_F("unit_location", x.unit_location()); VF_F("source_location", x.source_location()); VF_F("annotation", x.annotation()); VF_F("attributes", x.attributes());
      }
      if constexpr (std::is_base_of_v<ipr::Decl, I>) {
         VF_F("specifiers", x.specifiers()); VF_F("decl-linkage", static_cast<const ipr::Decl&>(x).linkage()); VF_F("decl-name", static_cast<const ipr::Decl&>(x).name());
         VF_F("home_region", x.home_region()); VF_F("lexical_region", x.lexical_region()); VF_F("initializer", x.initializer());
         VF_F("master", x.master()); VF_F("decl_set", x.decl_set());
      }
      extras(c, o, x);
      return o;
   }
#undef VF_F
}

#endif
