// Internals shared by the translation units of the zoo (zoo.cpp and the five row files).  Harnesses include zoo.hpp only.
#ifndef VERIF_ZOO_IMPL_HPP
#define VERIF_ZOO_IMPL_HPP

#include <deque>

#include "zoo/zoo.hpp"
#include "zoo/describe.hpp"

namespace zoo {
   // Row registry: every row file registers under its own unit number, so that the order of rows() is fixed
   // (unit 0, 1, ... each in textual order) whatever order the static initialisers run in.
   void register_row(int unit, const char* name, void (*build)(Ctx&));
   template<int Unit>
   struct Reg {
      Reg(const char* n, void (*f)(Ctx&)) { register_row(Unit, n, f); }
   };

   struct Owned {       // artefacts the zoo itself must keep alive (tokens are not made by any defined factory)
      std::deque<ipr::impl::Token> tokens;
      std::deque<ipr::impl::ref_sequence<ipr::Attribute>> attr_seqs;
      std::deque<ipr::impl::Annotation> annotations;
      std::deque<ipr::impl::Comment> comments;
      std::deque<std::unique_ptr<ipr::impl::Module>> modules;
   };
   Owned& owned(Ctx& c);

   template<class Iface, class Impl>
   Entry& Ctx::node(const Impl& n, const char* variant, bool generative)
   {
      const Iface& i = n;                      // the documented interface; ill-formed if the factory returns something else
      Entry e;
      e.row = current_row + variant;
      e.iface = leaf_name[leaf_of<Iface>::value];
      e.node = static_cast<const ipr::Node*>(&i);
      e.leaf = leaf_of<Iface>::value;
      e.sink = sink_of<Iface>(false);
      e.sink_classic = sink_of<Iface>(true);
      e.is_expr = std::is_base_of_v<ipr::Expr, Iface>;
      e.is_type = std::is_base_of_v<ipr::Type, Iface>;
      e.is_stmt = std::is_base_of_v<ipr::Stmt, Iface>;
      e.is_decl = std::is_base_of_v<ipr::Decl, Iface>;
      if constexpr (std::is_base_of_v<ipr::Expr, Iface>) e.as_expr = &i;
      if constexpr (std::is_base_of_v<ipr::Type, Iface>) e.as_type = &i;
      e.generative = generative;
      const Iface* p = &i;
      e.observe = [p](Ctx& c) { return describe_as<Iface>(c, *p); };
      if constexpr (std::is_base_of_v<ipr::Classic, Iface> and requires(Impl& m, const ipr::Decl* d) { m.op_impl = d; }) {
         Impl* mp = const_cast<Impl*>(&n);
         e.set_implementation = [mp](const ipr::Decl* d) { mp->op_impl = d; };
      }
      namer.names.insert({ static_cast<const void*>(e.node), "k" + std::to_string(entries.size()) + "." + e.iface });
      entries.push_back(std::move(e));
      if (rep) rep->count("transitions");
      if (on_register) on_register(*this, entries.size() - 1);
      return entries.back();
   }

   template<class Iface>
   Entry& Ctx::artefact(const Iface& a, const char* iface, const char* variant, std::function<std::string(Ctx&)> obs)
   {
      Entry e;
      e.row = current_row + variant;
      e.iface = iface;
      e.observe = std::move(obs);
      e.generative = true;
      namer.names.insert({ static_cast<const void*>(&a), "a" + std::to_string(entries.size()) + "." + iface });
      entries.push_back(std::move(e));
      if (rep) rep->count("transitions");
      if (on_register) on_register(*this, entries.size() - 1);
      return entries.back();
   }

}

#endif
