// The node zoo (DESIGN 2.3): ONE table of factory rows shared by C02, C05, C06, C09, C14, C18 and C19.
// A row calls one factory overload with pairwise-distinct operands from the context's pools, registers what it
// built under the *interface* class the documentation promises, and states -- from the documentation in
// <ipr/interface>, <ipr/cxx-form>, <ipr/attribute>, not from impl.cxx -- which accessor must return which argument
// (C02) and which type rule applies (C09).  Everything else (category, visitor dispatch, accessor sweep, stability
// fingerprint, printing, leak accounting) is generic and works on the registered entries.
#ifndef VERIF_ZOO_HPP
#define VERIF_ZOO_HPP

#include <cstdint>
#include <functional>
#include <map>
#include <memory>
#include <string>
#include <type_traits>
#include <unordered_map>
#include <vector>

#include <ipr/impl>

#include "report.hpp"
#include "zoo/categories.inc"

namespace zoo {
   // ------------------------------------------------------------------------------------------------
   // Category tables
   enum Sink { SNode, SExpr, SClassic, SName, SType, SDirective, SStmt, SDecl, NSINKS };
   inline const char* sink_name[] = { "Node", "Expr", "Classic", "Name", "Type", "Directive", "Stmt", "Decl" };

   enum LeafIndex {
#define X(N) L_##N,
      VF_CATEGORIES(X)
#undef X
      NLEAVES
   };
   inline const char* leaf_name[] = {
#define X(N) #N,
      VF_CATEGORIES(X)
#undef X
   };
   inline const ipr::Category_code leaf_code[] = {
#define X(N) ipr::Category_code::N,
      VF_CATEGORIES(X)
#undef X
   };

   template<class I> struct leaf_of;
#define X(N) template<> struct leaf_of<ipr::N> { static constexpr int value = L_##N; };
   VF_CATEGORIES(X)
#undef X

   // Nearest abstract super-category of an interface (Decl > Stmt > Directive > Type > Name > Expr > Node).
   template<class I>
   constexpr Sink sink_of(bool with_classic)
   {
      if constexpr (std::is_base_of_v<ipr::Decl, I>) return SDecl;
      else if constexpr (std::is_base_of_v<ipr::Stmt, I>) return SStmt;
      else if constexpr (std::is_base_of_v<ipr::Directive, I>) return SDirective;
      else if constexpr (std::is_base_of_v<ipr::Type, I>) return SType;
      else if constexpr (std::is_base_of_v<ipr::Name, I>) return SName;
      else if constexpr (std::is_base_of_v<ipr::Classic, I>) return with_classic ? SClassic : SExpr;
      else if constexpr (std::is_base_of_v<ipr::Expr, I>) return SExpr;
      else return SNode;
   }

   // Records which hook ran.  Overrides all 159 leaf hooks and the 8 abstract ones.
   struct Recorder : ipr::Visitor {
      int calls = 0;
      int leaf = -1;
      int sink = -1;
#define X(N) void visit(const ipr::N&) override { ++calls; leaf = L_##N; }
      VF_CATEGORIES(X)
#undef X
      void visit(const ipr::Node&) override { ++calls; sink = SNode; }
      void visit(const ipr::Expr&) override { ++calls; sink = SExpr; }
      void visit(const ipr::Classic&) override { ++calls; sink = SClassic; }
      void visit(const ipr::Name&) override { ++calls; sink = SName; }
      void visit(const ipr::Type&) override { ++calls; sink = SType; }
      void visit(const ipr::Directive&) override { ++calls; sink = SDirective; }
      void visit(const ipr::Stmt&) override { ++calls; sink = SStmt; }
      void visit(const ipr::Decl&) override { ++calls; sink = SDecl; }
   };

   // Overrides only the seven pure sinks: every leaf hook keeps its library default.
   struct SinkOnly : ipr::Visitor {
      int calls = 0;
      int sink = -1;
      using ipr::Visitor::visit;
      void visit(const ipr::Node&) override { ++calls; sink = SNode; }
      void visit(const ipr::Expr&) override { ++calls; sink = SExpr; }
      void visit(const ipr::Name&) override { ++calls; sink = SName; }
      void visit(const ipr::Type&) override { ++calls; sink = SType; }
      void visit(const ipr::Directive&) override { ++calls; sink = SDirective; }
      void visit(const ipr::Stmt&) override { ++calls; sink = SStmt; }
      void visit(const ipr::Decl&) override { ++calls; sink = SDecl; }
   };
   struct SinkClassic : SinkOnly {
      using SinkOnly::visit;
      void visit(const ipr::Classic&) override { ++calls; sink = SClassic; }
   };

   using ViewFn = const ipr::Node* (*)(const ipr::Node&);
   inline const ViewFn view_fn[] = {
#define X(N) +[](const ipr::Node& n) -> const ipr::Node* { return ipr::util::view<ipr::N>(n); },
      VF_CATEGORIES(X)
#undef X
   };

   // ------------------------------------------------------------------------------------------------
   // Entries
   struct Ctx;

   enum TypeRuleKind { TNone, TFixed, TGiven, TAbsent, TBorrowed, TSelfDescribed };

   struct Entry {
      std::string row;                       // factory row that built it (with variant suffix)
      std::string iface;                     // documented interface class
      const ipr::Node* node = nullptr;       // null for non-node artefacts (attributes, tokens, forms, units...)
      int leaf = -1;                         // expected leaf category
      Sink sink = SNode, sink_classic = SNode;
      bool is_expr = false, is_type = false, is_stmt = false, is_decl = false;
      const ipr::Expr* as_expr = nullptr;
      const ipr::Type* as_type = nullptr;
      std::function<std::string(Ctx&)> observe;     // calls every accessor of the interface, returns a fingerprint
      std::function<void(const ipr::Decl*)> set_implementation;     // classic expressions: the settable `implementation()` link
      bool generative = false;               // made by a make_* constructor that must yield a fresh node
      bool settable_done = false;
   };

   // ------------------------------------------------------------------------------------------------
   // Rendering of accessor results (for fingerprints).  Nodes are named by registration order, never by address.
   struct Namer {
      std::unordered_map<const void*, std::string> names;
      std::string of(const void* p) const
      {
         auto it = names.find(p);
         return it == names.end() ? std::string() : it->second;
      }
   };

   struct Probe {              // accounting of the accessor sweep
      long long calls = 0, returned = 0, refused = 0;
      std::vector<std::pair<std::string, std::string>> bad;       // (accessor, what) -- non-logic_error exceptions
      std::string current_accessor;
   };

   struct Ctx {
      ipr::impl::Lexicon& lex;
      ipr::impl::Translation_unit& unit;
      ipr::impl::Region& region;
      ipr::impl::attr_factory attrs;
      ipr::impl::capture_spec_factory caps;
      vf::Report* rep = nullptr;
      std::string prop = "C02";              // which property's oracle is active ("C02", "C09", "" = build only)
      int rot = 0;                           // operand rotation (choice vector)
      int round = 0;                         // how many times the whole table has been built on this Lexicon
      bool out_of_range_probes = false;      // C14: also index sequences beyond size()
      std::vector<Entry> entries;
      Namer namer;
      Probe probe;
      std::string current_row;
      std::function<void(Ctx&, std::size_t)> on_register;     // called with the index of every entry right after it was built (bare state)
      // operand pools (pairwise distinct, of the right static type)
      std::vector<const ipr::Expr*> ex;
      std::vector<const ipr::Type*> ty;
      std::vector<const ipr::Name*> nm;
      std::vector<const ipr::Identifier*> id;
      std::vector<const ipr::String*> st;
      std::vector<const ipr::Expr_list*> xl;
      std::vector<const ipr::Product*> pr;
      std::vector<const ipr::Sum*> sm;
      std::vector<const ipr::Transfer*> xf;
      std::vector<const ipr::Token*> tk;
      std::vector<const ipr::Decl*> dc;
      std::vector<const ipr::Scope_ref*> sr;
      std::vector<ipr::Qualifiers> qu;

      Ctx(ipr::impl::Lexicon& l, ipr::impl::Translation_unit& u);
      ~Ctx();
      Ctx(const Ctx&) = delete;
      void refill_pools();

      const ipr::Expr& E(int i) const { return *ex[(i + rot) % ex.size()]; }
      const ipr::Type& T(int i) const { return *ty[(i + rot) % ty.size()]; }
      const ipr::Name& N(int i) const { return *nm[(i + rot) % nm.size()]; }
      const ipr::Identifier& I(int i) const { return *id[(i + rot) % id.size()]; }
      const ipr::String& S(int i) const { return *st[(i + rot) % st.size()]; }
      const ipr::Expr_list& XL(int i) const { return *xl[(i + rot) % xl.size()]; }
      const ipr::Product& P(int i) const { return *pr[(i + rot) % pr.size()]; }
      const ipr::Sum& SM(int i) const { return *sm[(i + rot) % sm.size()]; }
      const ipr::Transfer& X(int i) const { return *xf[(i + rot) % xf.size()]; }
      const ipr::Token& TK(int i) const { return *tk[(i + rot) % tk.size()]; }
      const ipr::Decl& D(int i) const { return *dc[(i + rot) % dc.size()]; }
      ipr::Qualifiers Q(int i) const { return qu[(i + rot) % qu.size()]; }

      // ---- reporting ----
      void violation(const std::string& p, const std::string& key, const std::string& what)
      {
         if (rep == nullptr or p != prop) return;
         rep->violation(p + ":" + key, rot * 100 + round, what + " [row " + current_row + ", operand rotation " + std::to_string(rot) + "]",
                        vf::JObj{}.str("pass", p).str("row", current_row).raw("ops", vf::jarr(std::vector<long long>{ rot, round })).done());
      }

      // C02: the accessor `acc` of the node built by the current row must return exactly `want`.
      template<class A, class B>
      void same(const char* acc, const A* got, const B* want)
      {
         if (rep) rep->count("transitions");
         if (static_cast<const void*>(got) != static_cast<const void*>(static_cast<const A*>(want)))
            violation("C02", current_row + ":" + acc, std::string("accessor ") + acc + " does not return the operand it was given");
      }
      template<class V>
      void equal(const char* acc, const V& got, const V& want)
      {
         if (rep) rep->count("transitions");
         if (not(got == want)) violation("C02", current_row + ":" + acc, std::string("accessor ") + acc + " does not return the value it was given");
      }
      template<class T>
      void absent(const char* acc, ipr::Optional<T> got)
      {
         if (rep) rep->count("transitions");
         if (got.is_valid()) violation("C02", current_row + ":" + acc, std::string("optional part ") + acc + " was not supplied but reads as present");
      }
      template<class T, class U>
      void present(const char* acc, ipr::Optional<T> got, const U* want)
      {
         if (rep) rep->count("transitions");
         if (not got.is_valid() or static_cast<const void*>(&got.get()) != static_cast<const void*>(static_cast<const T*>(want)))
            violation("C02", current_row + ":" + acc, std::string("optional part ") + acc + " does not read back as the operand it was given");
      }
      // an accessor returning a reference must refuse (logic_error) when the part was not supplied
      template<class F>
      void refuses(const char* acc, F f)
      {
         if (rep) rep->count("transitions");
         try { (void) f(); }
         catch (const std::logic_error&) { return; }
         catch (...) { violation("C02", current_row + ":" + acc, std::string("reading the unsupplied part ") + acc + " throws something that is not a logic_error"); return; }
         violation("C02", current_row + ":" + acc, std::string("the part ") + acc + " was not supplied but reading it succeeds");
      }

      // C09 type rules
      void type_is(const ipr::Expr& n, const ipr::Type& want, const char* rule)
      {
         if (rep) rep->count("transitions");
         try {
            if (&n.type() != &want) violation("C09", current_row + ":" + rule, std::string("type() is not the type prescribed by the rule '") + rule + "'");
         }
         catch (const std::exception& e) { violation("C09", current_row + ":" + rule + ":refused", std::string("type() refused (") + e.what() + ") although the rule '" + rule + "' prescribes a type"); }
      }
      void type_absent(const ipr::Expr& n)
      {
         if (rep) rep->count("transitions");
         try { (void) n.type(); }
         catch (const std::logic_error&) { return; }
         catch (...) { violation("C09", current_row + ":absent", "type() of a node built without a type throws something that is not a logic_error"); return; }
         violation("C09", current_row + ":absent", "a node built without a type reports one");
      }
      // borrowed: n.type() and source.type() denote the same node, or both refuse with logic_error
      void type_borrowed(const ipr::Expr& n, const ipr::Expr& source, const char* from)
      {
         if (rep) rep->count("transitions");
         const ipr::Type* a = nullptr;
         const ipr::Type* b = nullptr;
         bool ra = false, rb = false;
         try { a = &n.type(); } catch (const std::logic_error&) { ra = true; }
         try { b = &source.type(); } catch (const std::logic_error&) { rb = true; }
         if (ra != rb or a != b) violation("C09", current_row + ":borrowed:" + from, std::string("type() is not the type of its ") + from);
      }

      // ---- registration ----
      template<class Iface, class Impl>
      Entry& node(const Impl& n, const char* variant = "", bool generative = true);
      template<class Iface>
      Entry& artefact(const Iface& a, const char* iface, const char* variant, std::function<std::string(Ctx&)> obs);

      std::string name_of(const ipr::Node& n);
   };

   // Everything the table contains.
   struct Row { const char* name; void (*build)(Ctx&); };
   const std::vector<Row>& rows();
   void build_all(Ctx&);
   void build_row(Ctx&, const Row&);
   // Implementation classes that no factory returns directly (constants, internals reachable through accessors).
   void register_constants_and_internals(Ctx&);

   // Call one accessor under the C14 discipline (logic_error = refusal; anything else is recorded in ctx.probe.bad).
   void guarded(Ctx&, std::string& out, const char* name, const std::function<std::string()>& f);

   // Fingerprint of any node through the accessors of its dynamic interface (dispatch by accept()).
   std::string observe(Ctx&, const ipr::Node&);
}

#endif
