// Machinery of the zoo + the factory table itself.  See zoo.hpp.
#include "zoo/zoo_impl.hpp"

namespace zoo {
   namespace {
      constexpr int NUNITS = 5;
      std::vector<Row>* units()
      {
         static std::vector<Row> u[NUNITS];
         return u;
      }
   }

   void register_row(int unit, const char* name, void (*build)(Ctx&)) { units()[unit].push_back({ name, build }); }

   const std::vector<Row>& rows()
   {
      static std::vector<Row> all = [] { std::vector<Row> v; for (int u = 0; u < NUNITS; ++u) for (auto& r : units()[u]) v.push_back(r); return v; }();
      return all;
   }

   void guarded(Ctx& c, std::string& out, const char* name, const std::function<std::string()>& f) { field(c, out, name, f); }

   void build_row(Ctx& c, const Row& r)
   {
      c.current_row = r.name;
      try {
         r.build(c);
      }
      catch (const std::exception& e) {
         // every part a row reads was supplied (unsupplied parts are read through refuses()/absent()), so an
         // exception escaping a row is an accessor refusing to return what the node was built from
         if (c.rep and not c.prop.empty())
            c.violation(c.prop, c.current_row + ":unexpected-exception", std::string("an accessor of a supplied part threw: ") + e.what());
         else if (c.prop.empty() and c.rep) c.rep->member("rows_that_threw", c.current_row + ": " + e.what());
      }
   }

   void build_all(Ctx& c)
   {
      for (auto& r : rows()) build_row(c, r);
      c.current_row = "constants-and-internals";
      register_constants_and_internals(c);
      ++c.round;
   }

   // ------------------------------------------------------------------------------------------------
   // Operand pools
   namespace {
      std::map<Ctx*, std::unique_ptr<Owned>> owned_by;
   }
   Owned& owned(Ctx& c)
   {
      auto& p = owned_by[&c];
      if (not p) p = std::make_unique<Owned>();
      return *p;
   }

   Ctx::~Ctx() { owned_by.erase(this); }

   Ctx::Ctx(ipr::impl::Lexicon& l, ipr::impl::Translation_unit& u) : lex{ l }, unit{ u }, region{ *u.global_region() }
   {
      refill_pools();
   }

   void Ctx::refill_pools()
   {
      auto name = [&](const void* p, const std::string& n) { namer.names.insert({ p, n }); };
      const ipr::Lexicon& il = lex;
      ex = { lex.make_literal(il.int_type(), u8"1"), lex.make_id_expr(lex.get_identifier(u8"x")), lex.make_literal(il.char_type(), u8"c"),
             lex.make_literal(il.int_type(), u8"2") };
      for (std::size_t i = 0; i < ex.size(); ++i) name(static_cast<const ipr::Node*>(ex[i]), "E" + std::to_string(i));
      auto* cls = lex.make_class(region);
      cls->id = &lex.get_identifier(u8"C");
      ty = { &il.int_type(), &lex.get_pointer(il.char_type()), cls, &il.double_type() };
      for (std::size_t i = 0; i < ty.size(); ++i) name(static_cast<const ipr::Node*>(ty[i]), "T" + std::to_string(i));
      id = { &lex.get_identifier(u8"a"), &lex.get_identifier(u8"b"), &lex.get_identifier(u8"c") };
      for (std::size_t i = 0; i < id.size(); ++i) name(static_cast<const ipr::Node*>(id[i]), "I" + std::to_string(i));
      nm = { &lex.get_identifier(u8"n"), &lex.get_operator(u8"+"), &lex.get_conversion(il.int_type()) };
      for (std::size_t i = 0; i < nm.size(); ++i) name(static_cast<const ipr::Node*>(nm[i]), "N" + std::to_string(i));
      st = { &lex.get_string(u8"s1"), &lex.get_string(u8"s2"), &lex.get_string(u8"s3") };
      for (std::size_t i = 0; i < st.size(); ++i) name(static_cast<const ipr::Node*>(st[i]), "S" + std::to_string(i));
      auto* l0 = lex.make_expr_list();
      auto* l1 = lex.make_expr_list();
      l1->push_back(ex[0]);
      auto* l2 = lex.make_expr_list();
      l2->push_back(ex[1]);
      l2->push_back(ex[2]);
      xl = { l0, l1, l2 };
      for (std::size_t i = 0; i < xl.size(); ++i) name(static_cast<const ipr::Node*>(xl[i]), "XL" + std::to_string(i));
      ipr::impl::Warehouse<ipr::Type> w0, w1, w2;
      w1.push_back(il.int_type());
      w2.push_back(il.int_type());
      w2.push_back(il.char_type());
      pr = { &lex.get_product(w0), &lex.get_product(w1), &lex.get_product(w2) };
      sm = { &lex.get_sum(w0), &lex.get_sum(w1), &lex.get_sum(w2) };
      for (std::size_t i = 0; i < pr.size(); ++i) { name(static_cast<const ipr::Node*>(pr[i]), "P" + std::to_string(i)); name(static_cast<const ipr::Node*>(sm[i]), "SM" + std::to_string(i)); }
      xf = { &ipr::impl::cxx_transfer(), &lex.get_transfer_from_linkage(il.c_linkage()),
             &lex.get_transfer(lex.get_linkage(u8"Java"), lex.get_calling_convention(u8"fastcall")),
             // natural linkage with a non-natural convention; a convention alone; natural convention with a foreign linkage
             &lex.get_transfer(il.cxx_linkage(), lex.get_calling_convention(u8"vectorcall")),
             &lex.get_transfer_from_convention(lex.get_calling_convention(u8"stdcall")),
             &lex.get_transfer(lex.get_linkage(u8"Ada"), lex.get_calling_convention(u8"")) };
      auto& o = owned(*this);
      for (int i = 0; i < 3; ++i) {
         ipr::Source_location loc;
         loc.line = ipr::Line_number(10 + i);
         loc.column = ipr::Column_number(3 + i);
         loc.file = ipr::File_index(1 + i);
         o.tokens.emplace_back(*st[i], loc, ipr::TokenValue(100 + i), ipr::TokenCategory(7 + i));
         tk.push_back(&o.tokens.back());
         name(static_cast<const ipr::Token*>(&o.tokens.back()), "TK" + std::to_string(i));
         name(static_cast<const ipr::Lexeme*>(&o.tokens.back()), "TK" + std::to_string(i) + ".lexeme");
      }
      dc = { region.declare_var(lex.get_identifier(u8"v"), il.int_type()), region.declare_var(lex.get_identifier(u8"w"), il.char_type()),
             region.declare_type(lex.get_identifier(u8"Ty"), il.class_type()) };
      for (std::size_t i = 0; i < dc.size(); ++i) name(static_cast<const ipr::Node*>(dc[i]), "D" + std::to_string(i));
      sr = { lex.make_scope_ref(*ex[1], *ex[0]), lex.make_scope_ref(*ex[0], *ex[1]) };
      qu = { il.const_qualifier(), il.volatile_qualifier(), il.const_qualifier() | il.restrict_qualifier() };
   }
}

namespace zoo {
   std::string Ctx::name_of(const ipr::Node& n)
   {
      auto s = namer.of(static_cast<const void*>(&n));
      if (not s.empty()) return s;
      return "anon" + std::to_string(int(n.category));
   }


   // Dispatch on the dynamic interface through accept().
   struct Describer : ipr::Visitor {
      Ctx& c;
      std::string out;
      explicit Describer(Ctx& ctx) : c{ ctx } { }
#define X(N) void visit(const ipr::N& n) override { out = describe_as<ipr::N>(c, n); }
      VF_CATEGORIES(X)
#undef X
      void visit(const ipr::Node& n) override { out = "abstract-sink:Node cat=" + std::to_string(int(n.category)); }
      void visit(const ipr::Expr& n) override { out = "abstract-sink:Expr cat=" + std::to_string(int(n.category)); }
      void visit(const ipr::Name& n) override { out = "abstract-sink:Name cat=" + std::to_string(int(n.category)); }
      void visit(const ipr::Type& n) override { out = "abstract-sink:Type cat=" + std::to_string(int(n.category)); }
      void visit(const ipr::Directive& n) override { out = "abstract-sink:Directive cat=" + std::to_string(int(n.category)); }
      void visit(const ipr::Stmt& n) override { out = "abstract-sink:Stmt cat=" + std::to_string(int(n.category)); }
      void visit(const ipr::Decl& n) override { out = "abstract-sink:Decl cat=" + std::to_string(int(n.category)); }
   };

   std::string observe(Ctx& c, const ipr::Node& n)
   {
      Describer d{ c };
      n.accept(d);
      return d.out;
   }
}
