// Rows of the factory table, unit 4 (see zoo/zoo_impl.hpp).
#include "zoo/zoo_impl.hpp"

namespace zoo {
#define ROW(NAME) static void row_##NAME(Ctx& c); static Reg<4> reg_##NAME{ #NAME, row_##NAME }; static void row_##NAME([[maybe_unused]] Ctx& c)
}
#include "zoo/rows_internals.inc"
