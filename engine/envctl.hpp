// Owned nondeterminism (DESIGN 2.2): the harness executable replaces the global operator new/delete and
// pre-empts libstdc++'s std::_Hash_bytes, so that heap address order, allocation accounting and string-pool
// bucket choice are decided by the harness, not by the environment.  Link engine/envctl.cpp into the harness.
#ifndef VERIF_ENVCTL_HPP
#define VERIF_ENVCTL_HPP

#include <cstddef>

namespace vf::env {
   // Allocator personalities.  Malloc passes through to malloc/free (keeps the sanitizers' view of the heap);
   // the three arena modes hand out addresses from a private region in ascending order, in descending order,
   // or alternating round-robin among three lanes 1.5 GiB apart, so that any two nodes get both relative address orders
   // and address differences exceed 2^31.
   enum class Alloc { Malloc, Ascending, Descending, Alternating };
   void set_alloc(Alloc);
   Alloc get_alloc();
   const char* alloc_name(Alloc);
   // Forget the arena allocations made since the last reset -- unless some of them are still alive (a block the library keeps
   // for the rest of the process, e.g. an immutable function-local static table built on first use): then they are kept and
   // every region restarts behind them.  madvise'd pages must be page-aligned: only whole regions beyond 64 MiB are returned.
   void arena_reset();
   long long survivors_pinned();     // how many resets found survivors

   // Exact accounting of the calling thread's allocations (all personalities).
   struct Stats {
      long long live_blocks = 0;      // news minus deletes
      long long live_bytes = 0;       // as reported by malloc_usable_size (Malloc mode) or requested (arena)
      long long news = 0;
      long long deletes = 0;
      long long bad_deletes = 0;      // delete of a pointer that was not live in this accounting window
   };
   Stats stats();
   void track_pointers(bool);         // when on, the set of live pointers is kept (for bad_deletes); slower

   // Optional hook called at every operator new (kind 0), operator delete (kind 1), hash (kind 2): C20's
   // scheduling points.
   extern void (*hook)(int kind);

   // String hash personalities.  Real forwards to the genuine libstdc++ function.
   enum class Hash { Real, Constant, Length };
   void set_hash(Hash);
   const char* hash_name(Hash);
   long long hash_calls();
}

#endif
