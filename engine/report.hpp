// Result protocol shared by every harness: JSON lines written to the file named by --out.
//   {"t":"violation","key":K,"count":N,"rank":R,"what":TEXT,"witness":{...}}   one per distinct key
//   {"t":"counter","name":NAME,"value":N}                                       summed over shards (max_* are maxed)
//   {"t":"set","name":NAME,"values":[...]}                                      united over shards
//   {"t":"sample","value":{...}}                                                a few explored cases, verbatim
//   {"t":"info","name":NAME,"value":JSON}                                       bounds, modes, caps
//   {"t":"done","exhaustive":bool}
// The driver (bin/check) merges shards, consults known-findings.txt and writes evidence/<ID>.json.
#ifndef VERIF_REPORT_HPP
#define VERIF_REPORT_HPP

#include <chrono>
#include <cstdint>
#include <cstdio>
#include <cstdlib>
#include <cstring>
#include <map>
#include <set>
#include <sstream>
#include <string>
#include <vector>

#include <sys/time.h>
#include <unistd.h>

namespace vf {
   inline std::string jstr(std::string_view s)
   {
      std::string r = "\"";
      for (unsigned char c : s) {
         switch (c) {
         case '"': r += "\\\""; break;
         case '\\': r += "\\\\"; break;
         case '\n': r += "\\n"; break;
         case '\t': r += "\\t"; break;
         default:
            if (c < 0x20 or c >= 0x7f) {
               char buf[8];
               std::snprintf(buf, sizeof buf, "\\u%04x", c);
               r += buf;
            }
            else
               r += char(c);
         }
      }
      return r + "\"";
   }

   inline std::string jstr(std::u8string_view s)
   {
      return jstr(std::string_view(reinterpret_cast<const char*>(s.data()), s.size()));
   }

   template<class T>
   inline std::string jarr(const std::vector<T>& v)
   {
      std::string r = "[";
      bool first = true;
      for (auto& x : v) {
         if (not first) r += ",";
         first = false;
         if constexpr (std::is_arithmetic_v<T>) r += std::to_string(x);
         else r += x;         // already JSON
      }
      return r + "]";
   }

   inline std::string jarr_str(const std::vector<std::string>& v)
   {
      std::vector<std::string> q;
      for (auto& s : v) q.push_back(jstr(s));
      return jarr(q);
   }

   // A JSON object under construction.
   struct JObj {
      std::string body;
      JObj& raw(std::string_view k, const std::string& json)
      {
         if (not body.empty()) body += ",";
         body += jstr(k) + ":" + json;
         return *this;
      }
      JObj& str(std::string_view k, std::string_view v) { return raw(k, jstr(v)); }
      JObj& num(std::string_view k, long long v) { return raw(k, std::to_string(v)); }
      JObj& boolean(std::string_view k, bool v) { return raw(k, v ? "true" : "false"); }
      std::string done() const { return "{" + body + "}"; }
   };

   inline std::uint64_t fnv(std::string_view s, std::uint64_t h = 1469598103934665603ull)
   {
      for (unsigned char c : s) { h ^= c; h *= 1099511628211ull; }
      return h;
   }

   struct Options {
      std::string tier = "quick";
      std::string out;
      std::string replay;
      int shard = 0, shards = 1;
      double deadline_s = 1e18;          // wall-clock budget for this process
      long long seed = 0;
      std::vector<std::string> extra;
      std::chrono::steady_clock::time_point t0 = std::chrono::steady_clock::now();

      bool thorough() const { return tier == "thorough"; }
      double elapsed() const
      {
         return std::chrono::duration<double>(std::chrono::steady_clock::now() - t0).count();
      }
      bool expired() const { return elapsed() > deadline_s; }
      // Work distribution; every call also kicks the hang watchdog (see install_crash_handler): a single unit of work that
      // burns more than hang_s seconds of CPU is reported as a hang of the library (on the unchanged tree every unit takes
      // milliseconds to a few seconds).
      unsigned hang_s = 300;
      // The watchdog counts CPU time of the process (ITIMER_PROF), not wall-clock time, so that a loaded machine cannot
      // turn a slow unit of work into a false "hang".
      void kick() const
      {
         if (not watchdog) return;
         auto now = std::chrono::steady_clock::now();
         if (now - last_kick > std::chrono::milliseconds(500)) {
            last_kick = now;
            itimerval it{ };
            it.it_value.tv_sec = hang_s;
            setitimer(ITIMER_PROF, &it, nullptr);
         }
      }
      bool mine(long long i) const { kick(); return (i % shards) == shard; }
      bool watchdog = false;
      mutable std::chrono::steady_clock::time_point last_kick = std::chrono::steady_clock::now();
   };

   inline Options parse_options(int argc, char** argv)
   {
      Options o;
      for (int i = 1; i < argc; ++i) {
         std::string a = argv[i];
         auto next = [&]() -> std::string { return i + 1 < argc ? argv[++i] : ""; };
         if (a == "--tier") o.tier = next();
         else if (a == "--out") o.out = next();
         else if (a == "--replay") o.replay = next();
         else if (a == "--deadline") o.deadline_s = std::atof(next().c_str());
         else if (a == "--seed") o.seed = std::atoll(next().c_str());
         else if (a == "--shard") {
            auto s = next();
            std::sscanf(s.c_str(), "%d/%d", &o.shard, &o.shards);
         }
         else o.extra.push_back(a);
      }
      return o;
   }

   // When the harness runs with an arena allocator personality (engine/envctl), anything that must outlive the
   // arena scope has to be allocated with malloc: the recording functions below switch personality around
   // their own allocations through these two hooks (installed by envctl.cpp; null when envctl is not linked).
   inline int (*persist_enter)() = nullptr;
   inline void (*persist_leave)(int) = nullptr;
   struct Persist {
      int token = 0;
      Persist() { if (persist_enter) token = persist_enter(); }
      ~Persist() { if (persist_leave) persist_leave(token); }
      Persist(const Persist&) = delete;
   };

   struct Report {
      struct Viol {
         long long count = 0;
         long long rank = 0;              // smaller = simpler witness
         std::string what, witness;
      };
      std::map<std::string, Viol> viols;
      std::map<std::string, long long> counters;
      std::map<std::string, std::set<std::string>> sets;
      std::vector<std::string> samples;
      std::map<std::string, std::string> infos;
      bool exhaustive = true;
      std::size_t sample_cap = 6;
      std::size_t set_cap = 20000;

      // Record one failing execution.  `rank` orders witnesses (fewest deviations, then shortest).
      void violation(const std::string& key, long long rank, const std::string& what, const std::string& witness_json)
      { Persist persist_;
         auto& v = viols[key];
         if (v.count == 0 or rank < v.rank) {
            v.rank = rank;
            v.what = what;
            v.witness = witness_json;
         }
         ++v.count;
      }
      bool has_violation(const std::string& key) const { return viols.count(key) != 0; }
      void count(const std::string& name, long long n = 1) { Persist persist_; counters[name] += n; }
      void maxi(const std::string& name, long long n)
      { Persist persist_;
         auto& c = counters[name];
         if (n > c) c = n;
      }
      void member(const std::string& set, const std::string& v)
      { Persist persist_;
         auto& s = sets[set];
         if (s.size() < set_cap) s.insert(v);
      }
      void sample(const std::string& json)
      { Persist persist_;
         if (samples.size() < sample_cap) samples.push_back(json);
      }
      void info(const std::string& name, const std::string& json) { Persist persist_; infos[name] = json; }
      void cap(const std::string& what)
      {
         exhaustive = false;
         member("caps_hit", what);
      }

      void write(const Options& o) const
      {
         FILE* f = o.out.empty() ? stdout : std::fopen(o.out.c_str(), "w");
         if (f == nullptr) { std::perror("report"); std::exit(2); }
         for (auto& [k, v] : viols)
            std::fprintf(f, "%s\n", JObj{}.str("t", "violation").str("key", k).num("count", v.count)
                         .num("rank", v.rank).str("what", v.what).raw("witness", v.witness.empty() ? "{}" : v.witness).done().c_str());
         for (auto& [k, v] : counters)
            std::fprintf(f, "%s\n", JObj{}.str("t", "counter").str("name", k).num("value", v).done().c_str());
         for (auto& [k, s] : sets) {
            std::vector<std::string> q(s.begin(), s.end());
            std::fprintf(f, "%s\n", JObj{}.str("t", "set").str("name", k).raw("values", jarr_str(q)).done().c_str());
         }
         for (auto& s : samples)
            std::fprintf(f, "%s\n", JObj{}.str("t", "sample").raw("value", s).done().c_str());
         for (auto& [k, v] : infos)
            std::fprintf(f, "%s\n", JObj{}.str("t", "info").str("name", k).raw("value", v).done().c_str());
         std::fprintf(f, "%s\n", JObj{}.str("t", "done").boolean("exhaustive", exhaustive).done().c_str());
         if (f != stdout) std::fclose(f);
      }
   };

   // ---- crash capture -------------------------------------------------------------------------------------
   // Every operation a harness performs is an admissible use of the library, so a signal (or a sanitizer abort)
   // inside a harness is a counterexample, not an accident.  The handler writes one violation record, naming the
   // execution in progress, to "<out>.crash"; the driver merges it.  `crash_describe` is set by the harness and
   // formats the current execution (as the inside of a JSON object) only when needed, so the hot path pays nothing.
   inline void (*crash_describe)(char* buf, std::size_t n) = nullptr;
   inline char crash_path[600] = "";
   inline char crash_prop[64] = "";
   inline const char* volatile crash_phase = "run";

   inline void crash_emit(const char* how)
   {
      static char wit[8192];
      static char line[9000];
      wit[0] = 0;
      if (crash_describe) crash_describe(wit, sizeof wit);
      int n = std::snprintf(line, sizeof line,
                            "{\"t\":\"violation\",\"key\":\"%s:crash:%s:%s\",\"count\":1,\"rank\":0,"
                            "\"what\":\"the library crashed (%s) during an admissible operation, phase %s\","
                            "\"witness\":{\"crash\":\"%s\"%s%s}}\n",
                            crash_prop, crash_phase, how, how, crash_phase, how, wit[0] ? "," : "", wit);
      if (crash_path[0]) {
         FILE* f = std::fopen(crash_path, "a");
         if (f) { std::fwrite(line, 1, n > 0 ? std::size_t(n) : 0, f); std::fclose(f); }
      }
      std::fwrite(line, 1, n > 0 ? std::size_t(n) : 0, stderr);
   }

   void install_crash_handler(const Options& o, const char* prop);

   // Minimal reader for the flat replay files this framework writes: {"ops":[..ints..],"env":N,...}.
   inline std::vector<long long> json_int_array(const std::string& text, const std::string& key)
   {
      std::vector<long long> r;
      auto p = text.find("\"" + key + "\"");
      if (p == std::string::npos) return r;
      p = text.find('[', p);
      if (p == std::string::npos) return r;
      ++p;
      while (p < text.size() and text[p] != ']') {
         while (p < text.size() and (text[p] == ' ' or text[p] == ',' or text[p] == '\n')) ++p;
         if (p < text.size() and text[p] == ']') break;
         char* end = nullptr;
         long long v = std::strtoll(text.c_str() + p, &end, 10);
         if (end == text.c_str() + p) break;
         r.push_back(v);
         p = end - text.c_str();
      }
      return r;
   }

   inline long long json_int(const std::string& text, const std::string& key, long long dflt = 0)
   {
      auto p = text.find("\"" + key + "\"");
      if (p == std::string::npos) return dflt;
      p = text.find(':', p);
      if (p == std::string::npos) return dflt;
      return std::strtoll(text.c_str() + p + 1, nullptr, 10);
   }

   inline std::string slurp(const std::string& path)
   {
      FILE* f = std::fopen(path.c_str(), "r");
      if (f == nullptr) { std::perror(path.c_str()); std::exit(2); }
      std::string s;
      char buf[4096];
      std::size_t n;
      while ((n = std::fread(buf, 1, sizeof buf, f)) > 0) s.append(buf, n);
      std::fclose(f);
      return s;
   }
}


#include <csignal>
#include <unistd.h>
#include "prelude.hpp"
namespace vf {
   inline void crash_signal(int sig)
   {
      const char* how = sig == SIGSEGV ? "SIGSEGV" : sig == SIGABRT ? "SIGABRT" : sig == SIGFPE ? "SIGFPE"
                        : sig == SIGBUS ? "SIGBUS" : sig == SIGILL ? "SIGILL" : sig == SIGPROF ? "hang" : "signal";
      crash_emit(how);
      _exit(3);
   }

   inline void install_crash_handler(const Options& o, const char* prop)
   {
      std::snprintf(crash_prop, sizeof crash_prop, "%s", prop);
      if (not o.out.empty()) {
         std::snprintf(crash_path, sizeof crash_path, "%s.crash", o.out.c_str());
         std::remove(crash_path);
      }
      static char altstack[1 << 16];
      stack_t ss{};
      ss.ss_sp = altstack;
      ss.ss_size = sizeof altstack;
      sigaltstack(&ss, nullptr);
      struct sigaction sa{};
      sa.sa_handler = crash_signal;
      sa.sa_flags = SA_ONSTACK | SA_RESETHAND;
      for (int sig : { SIGSEGV, SIGABRT, SIGFPE, SIGBUS, SIGILL, SIGPROF }) sigaction(sig, &sa, nullptr);
      // hang watchdog: re-armed by every Options::mine() call
      if (o.thorough()) const_cast<Options&>(o).hang_s = 900;      // thorough units of work are larger, and the machine may be busy
      if (const char* h = std::getenv("VERIF_HANG_S")) const_cast<Options&>(o).hang_s = unsigned(std::atoi(h));
      const_cast<Options&>(o).watchdog = o.replay.empty();
      if (o.watchdog) { const_cast<Options&>(o).last_kick = std::chrono::steady_clock::now() - std::chrono::seconds(10); o.kick(); }
      // VERIF_PRELUDE=1: a decoy Lexicon lives and dies, a second one stays alive, before the exploration starts (prelude.hpp);
      // the handlers above are already in place, so a crash or hang in there is reported like any other.
      prelude(prop);
   }
}

#endif
