// engine/prelude.hpp -- "start from a non-initial state": a decoy Lexicon that lived and died before the harness begins,
// and a second one that stays alive while it runs.
//
// Every property is stated for "a Lexicon", not for "the first Lexicon of the process".  The explorers start every
// execution from a fresh Lexicon, but the *process* they run in is fresh too -- so anything the library keeps outside a
// Lexicon (a function-local static, a thread_local, a file-scope cache, a recycled pool) is in its initial state at the
// start of every harness run, which is precisely the state in which such a cache still looks right.  With
// VERIF_PRELUDE=1 in the environment every harness first runs one fixed, broad construction-and-printing program on a
// decoy Lexicon, destroys it, runs the same program on a second decoy and keeps that one alive, and only then starts its
// exploration.  The exploration and its oracle are unchanged: on a library that keeps nothing outside its Lexicons the
// verdict cannot differ (the decoys share nothing with the Lexicons under test except the documented constants).
//
// The program asks for the same spellings, types and constants the harnesses ask for (reserved words, the empty word,
// "C"/"C++", the short names x, y, T, m0, ...), so that a process-wide memo filled by the decoy collides with the harness.
#ifndef VERIF_PRELUDE_HPP
#define VERIF_PRELUDE_HPP

#include <ipr/impl>
#include <ipr/io>
#include <cstdlib>
#include <cstring>
#include <sstream>
#include <stdexcept>
#include <string>

namespace vf {
   namespace prelude_detail {
      struct AnyVisitor : ipr::Visitor {
         long n = 0;
         using ipr::Visitor::visit;
         void visit(const ipr::Node&) override { ++n; }
         void visit(const ipr::Expr&) override { ++n; }
         void visit(const ipr::Name&) override { ++n; }
         void visit(const ipr::Type&) override { ++n; }
         void visit(const ipr::Directive&) override { ++n; }
         void visit(const ipr::Stmt&) override { ++n; }
         void visit(const ipr::Decl&) override { ++n; }
      };

      inline void program(ipr::impl::Lexicon& lex, ipr::impl::Translation_unit& unit, std::string& out)
      {
         const ipr::Lexicon& L = lex;
         auto& G = *unit.global_region();
         AnyVisitor av;

         // -- words, identifiers, constants
         static const char8_t* const words[] = {
            u8"", u8"x", u8"y", u8"s", u8"T", u8"g", u8"f", u8"r", u8"a", u8"b", u8"m0", u8"m1", u8"m2", u8"N", u8"E", u8"C", u8"D", u8"C++", u8"Java",
            u8"int", u8"const", u8"volatile", u8"static", u8"default", u8"delete", u8"this", u8"unsigned long long", u8"alpha", u8"beta", u8"retry", u8"done",
            u8"count", u8"bufsz", u8"second", u8"Widget", u8"Gadget", u8"Colour", u8"red", u8"green", u8"blue", u8"local-08", u8"v0", u8"e0", u8"e1", u8"it",
            u8"a-rather-long-word-that-needs-several-granules", u8"exactly8", u8"exactly-twenty-four-byte", u8"+", u8"()", u8"[]", u8"<=>", u8"_km",
            u8"stdcall", u8"fastcall", u8"cdecl", u8"thiscall", u8"vectorcall" };
         for (auto w : words) { auto& s = lex.get_string(w); auto& id = lex.get_identifier(w); (void) lex.get_identifier(s); id.accept(av); }
         const ipr::Type* builtins[] = { &L.void_type(), &L.bool_type(), &L.char_type(), &L.schar_type(), &L.uchar_type(), &L.wchar_t_type(), &L.char8_t_type(), &L.char16_t_type(),
                                         &L.char32_t_type(), &L.short_type(), &L.ushort_type(), &L.int_type(), &L.uint_type(), &L.long_type(), &L.ulong_type(), &L.long_long_type(),
                                         &L.ulong_long_type(), &L.float_type(), &L.double_type(), &L.long_double_type(), &L.ellipsis_type(), &L.typename_type(), &L.class_type(),
                                         &L.union_type(), &L.enum_type(), &L.namespace_type() };
         for (auto t : builtins) { (void) t->name(); (void) t->type(); t->accept(av); }
         for (auto c : { &L.false_value(), &L.true_value(), &L.nullptr_value(), &L.default_value(), &L.delete_value() }) { (void) c->name(); (void) c->type(); }

         // -- linkages, conventions, transfers
         auto& lc = lex.get_linkage(u8"C");
         auto& lcxx = lex.get_linkage(u8"C++");
         auto& lj = lex.get_linkage(u8"Java");
         (void) (lc == L.c_linkage()); (void) (lcxx == L.cxx_linkage());
         auto& natural = lex.get_calling_convention(u8"");
         auto& stdcall = lex.get_calling_convention(u8"stdcall");
         auto& fastcall = lex.get_calling_convention(u8"fastcall");
         auto& xc = lex.get_transfer_from_linkage(lc);
         auto& xs = lex.get_transfer_from_convention(stdcall);
         auto& xjf = lex.get_transfer(lj, fastcall);
         auto& xcn = lex.get_transfer(lc, natural);
         auto& xxf = lex.get_transfer(lcxx, fastcall);
         (void) xcn; (void) xjf;

         // -- specifiers and qualifiers
         auto cv = L.const_qualifier() | L.volatile_qualifier();
         auto cvr = cv | L.restrict_qualifier();
         (void) lex.decompose(cvr);
         (void) lex.decompose(L.static_specifier() | L.constexpr_specifier() | L.inline_specifier() | L.virtual_specifier());
         for (auto w : { u8"const", u8"volatile", u8"restrict" }) (void) lex.qualifiers(ipr::Basic_qualifier{ lex.get_logogram(lex.get_string(w)) });
         for (auto w : { u8"static", u8"extern", u8"inline", u8"virtual", u8"constexpr", u8"mutable", u8"public", u8"export" }) (void) lex.specifiers(ipr::Basic_specifier{ lex.get_logogram(lex.get_string(w)) });
         try { (void) lex.qualifiers(ipr::Basic_qualifier{ lex.get_logogram(lex.get_string(u8"no-such-qualifier")) }); } catch (...) { }
         try { (void) lex.specifiers(ipr::Basic_specifier{ lex.get_logogram(lex.get_string(u8"const")) }); } catch (...) { }

         // -- types
         auto& pint = lex.get_pointer(L.int_type());
         auto& ppint = lex.get_pointer(pint);
         auto& rint = lex.get_reference(L.int_type());
         auto& rrint = lex.get_rvalue_reference(L.int_type());
         auto& cint = lex.get_qualified(L.const_qualifier(), L.int_type());
         auto& cvint = lex.get_qualified(L.volatile_qualifier(), cint);
         auto& cvrp = lex.get_qualified(cvr, pint);
         try { (void) lex.get_qualified(ipr::Qualifiers{ }, L.int_type()); } catch (...) { }
         auto& arr = lex.get_array(L.char_type(), *lex.make_literal(L.int_type(), u8"8"));
         ipr::impl::Warehouse<ipr::Type> w0, w1, w2;
         w1.push_back(L.int_type());
         w2.push_back(L.int_type()); w2.push_back(pint);
         auto& p0 = lex.get_product(w0);
         auto& p1 = lex.get_product(w1);
         auto& p2 = lex.get_product(w2);
         auto& s2 = lex.get_sum(w2);
         auto& f0 = lex.get_function(p0, L.void_type());
         auto& f1 = lex.get_function(p1, L.int_type());
         auto& f1c = lex.get_function(p1, L.int_type(), xc);
         auto& f1s = lex.get_function(p1, L.int_type(), xs);
         auto& f1x = lex.get_function(p1, L.int_type(), xxf);
         auto& f2t = lex.get_function(p2, cvint, L.true_value());
         (void) lex.get_tor(p1, s2);
         auto& pm = lex.get_ptr_to_member(L.class_type(), L.int_type());
         auto& dt = lex.get_decltype(*lex.make_id_expr(lex.get_identifier(u8"x")));
         auto& au = lex.get_auto();
         auto& at_i = lex.get_as_type(lex.get_identifier(u8"int"));
         auto& at_T = lex.get_as_type(lex.get_identifier(u8"T"));
         auto& at_e = lex.get_as_type(*lex.make_id_expr(lex.get_identifier(u8"T")));
         ipr::impl::Warehouse<ipr::Type> wt; wt.push_back(L.typename_type());
         auto& fa = lex.get_forall(lex.get_product(wt), L.class_type());
         const ipr::Type* types[] = { &pint, &ppint, &rint, &rrint, &cint, &cvint, &cvrp, &arr, &p0, &p1, &p2, &s2, &f0, &f1, &f1c, &f1s, &f1x, &f2t, &pm, &dt, &au, &at_i, &at_T, &at_e, &fa };
         for (auto t : types) { (void) t->type(); try { (void) t->name(); } catch (const std::logic_error&) { } t->accept(av); }
         (void) f1c.transfer(); (void) f1c.linkage(); (void) f2t.throws();
         (void) lex.get_this(L.class_type()); (void) lex.get_this(pint); (void) lex.get_this(L.class_type());

         // -- names, atoms
         auto& op_plus = lex.get_operator(u8"+");
         auto& op_call = lex.get_operator(lex.get_string(u8"()"));
         auto& sfx = lex.get_suffix(lex.get_identifier(u8"_km"));
         auto& conv = lex.get_conversion(pint);
         auto& ctor = lex.get_ctor_name(at_T);
         auto& dtor = lex.get_dtor_name(at_T);
         auto& lit7 = lex.get_literal(L.int_type(), u8"7");
         auto& lits = lex.get_literal(L.char_type(), u8"a\nb\x01\x02z");
         auto& lab = lex.get_label(lex.get_identifier(u8"retry"));
         (void) lex.get_label(lex.get_identifier(u8"default"));
         auto& sym = lex.get_symbol(op_plus, L.int_type());
         (void) lex.get_symbol(op_plus, L.char_type());
         (void) lex.get_symbol(lex.get_identifier(u8"x"), L.int_type());
         const ipr::Name* names[] = { &op_plus, &op_call, &sfx, &conv, &ctor, &dtor };
         for (auto n : names) n->accept(av);
         (void) sym.type(); (void) lab.type(); (void) lits.type();

         // -- expressions
         auto idx = [&](const char8_t* s) -> const ipr::Expr& { return *lex.make_id_expr(lex.get_identifier(s)); };
         auto* sum = lex.make_plus(lit7, *lex.make_mul(idx(u8"x"), idx(u8"y")));
         auto* args = lex.make_expr_list();
         args->push_back(sum); args->push_back(&idx(u8"s"));
         auto* call = lex.make_call(idx(u8"g"), *args);
         auto* cond = lex.make_conditional(idx(u8"x"), *call, *lex.make_unary_minus(lit7));
         auto* cast = lex.make_static_cast(pint, *lex.make_address(idx(u8"y")));
         auto& tid = lex.get_template_id(idx(u8"T"), *args);
         auto* enc = lex.make_enclosure(ipr::Delimiter::Brace, *args);
         auto* cons = lex.make_construction(at_T, *enc);
         auto* nw = lex.make_new({ }, *cons);
         const ipr::Expr* exprs[] = { sum, call, cond, cast, lex.make_id_expr(tid), cons, nw, lex.make_sizeof(idx(u8"x")), lex.make_not(idx(u8"y")), lex.make_assign(idx(u8"x"), lit7),
                                      lex.make_array_ref(idx(u8"x"), lit7), lex.make_dot(idx(u8"x"), idx(u8"m0")), lex.make_arrow(idx(u8"y"), idx(u8"m1")), lex.make_comma(idx(u8"x"), idx(u8"y")),
                                      lex.make_post_increment(idx(u8"x")), lex.make_deref(idx(u8"y")), lex.make_throw(lit7) };

         // -- declarations: variables, a function with a body, user-defined types, templates, an alias
         auto* v = G.declare_var(lex.get_identifier(u8"count"), cint);
         v->init = lex.make_literal(L.int_type(), u8"1024");
         v->src_locus = ipr::Source_location{ ipr::Line_number{ 11 }, ipr::Column_number{ 22 }, ipr::File_index{ 1 } };
         v->decl_data.spec = L.static_specifier() | L.constexpr_specifier();
         auto* v2 = G.declare_var(lex.get_identifier(u8"x"), L.int_type());
         auto* v3 = G.declare_var(lex.get_identifier(u8"x"), L.int_type());           // a redeclaration
         auto* v4 = G.declare_var(lex.get_identifier(u8"x"), L.char_type());          // same name, another type
         v3->init = cond;
         (void) v2; (void) v4;
         auto* al = G.declare_alias(lex.get_identifier(u8"y"), pint);
         (void) al;
         auto* fn = G.declare_fun(lex.get_identifier(u8"f"), f1);
         auto* m = lex.make_mapping(G, ipr::Mapping_level{ 0 });
         auto* pa = m->param(lex.get_identifier(u8"a"), L.int_type());
         auto* pb = m->param(lex.get_identifier(u8""), L.int_type());
         (void) pb;
         pa->init = &lit7;
         m->typing = &f1;
         auto* body = lex.make_block(m->inputs.region());
         {
            ipr::impl::Block* cur = body;
            for (int d = 0; d < 30; ++d) { auto* inner = lex.make_block(cur->lexical_region); cur->add_stmt(*inner); cur = inner; }
            auto* local = cur->lexical_region.declare_var(lex.get_identifier(u8"local-08"), L.int_type());
            local->init = sum;
            local->src_locus = ipr::Source_location{ ipr::Line_number{ 3 }, ipr::Column_number{ 4 }, ipr::File_index{ 2 } };
            cur->add_stmt(*local);
            auto* wh = lex.make_while(); wh->control = exprs[8]; wh->stmt = lex.make_break();
            cur->add_stmt(*wh);
            auto* fr = lex.make_for(); fr->init = exprs[9]; fr->cond = &idx(u8"x"); fr->inc = exprs[14]; fr->stmt = lex.make_continue();
            cur->add_stmt(*fr);
            cur->add_stmt(*lex.make_if(idx(u8"x"), *lex.make_return(*sum), *lex.make_goto(lab)));
            cur->add_stmt(*lex.make_labeled_stmt(lab, *lex.make_expr_stmt(*call)));
            auto* sw = lex.make_switch(); sw->control = &idx(u8"x"); sw->stmt = lex.make_break();
            cur->add_stmt(*sw);
            auto* h = body->new_handler(lex.get_identifier(u8"e0"), L.int_type());
            h->body().add_stmt(*lex.make_return(lit7));
            auto* h2 = body->new_handler(lex.get_identifier(u8"e1"), L.ellipsis_type());
            h2->body().add_stmt(*lex.make_expr_stmt(*lex.make_throw(lit7)));
         }
         m->body = body;
         fn->data.emplace<1>(m);

         auto* cls = lex.make_class(G);
         cls->id = &lex.get_identifier(u8"Widget");
         auto* base = lex.make_class(G); base->id = &lex.get_identifier(u8"D");
         cls->declare_base(*base); cls->declare_base(at_T);
         cls->declare_field(lex.get_identifier(u8"m0"), L.int_type());
         cls->declare_field(lex.get_identifier(u8"m1"), lex.get_pointer(*cls));
         auto* bf = cls->declare_bitfield(lex.get_identifier(u8"m2"), L.int_type()); bf->length = &lit7;
         G.declare_type(lex.get_identifier(u8"Widget"), L.class_type())->init = cls;
         auto* en = lex.make_enum(G, ipr::Enum::Kind::Scoped);
         en->id = &lex.get_identifier(u8"Colour");
         for (auto w : { u8"red", u8"green", u8"blue" }) en->add_member(lex.get_identifier(w))->init = &lit7;
         G.declare_type(lex.get_identifier(u8"Colour"), L.enum_type())->init = en;
         auto* un = lex.make_union(G); un->id = &lex.get_identifier(u8"E");
         un->declare_field(lex.get_identifier(u8"m0"), L.int_type()); un->declare_field(lex.get_identifier(u8"m1"), pint);
         G.declare_type(lex.get_identifier(u8"E"), L.union_type())->init = un;
         auto* ns = lex.make_namespace(G); ns->id = &lex.get_identifier(u8"N");
         ns->declare_var(lex.get_identifier(u8"m0"), L.int_type())->init = &lit7;
         G.declare_type(lex.get_identifier(u8"N"), L.namespace_type())->init = ns;

         auto* tm = lex.make_mapping(G, ipr::Mapping_level{ 0 });
         auto* tp = tm->param(lex.get_identifier(u8"T"), L.typename_type());
         tm->typing = &fa;
         tm->body = &pint;
         auto* tpl = G.declare_primary_template(lex.get_identifier(u8"T"), fa);
         tpl->init = tm;
         auto* tpl2 = G.declare_primary_template(lex.get_identifier(u8"T"), fa);      // a redeclaration
         (void) tpl2;
         (void) lex.get_guide_name(*tpl);
         auto* fnc = G.declare_fun(lex.get_identifier(u8"f"), f1c);      // (no mapping: the printer refuses it, so it comes last)
         (void) fnc;

         // -- lookups and derived operations
         const ipr::Scope& gs = G.bindings();
         for (auto w : { u8"x", u8"f", u8"T", u8"count", u8"nothing-declared" }) {
            auto ov = gs[lex.get_identifier(w)];
            if (ov.is_valid()) { auto& o = ov.get(); (void) o[static_cast<const ipr::Lexicon&>(lex).int_type()]; (void) o[static_cast<const ipr::Lexicon&>(lex).char_type()]; }
         }
         { for (auto& d : gs.elements()) {
            (void) d.name(); (void) d.type();
            try { (void) d.home_region(); (void) d.lexical_region(); } catch (const std::logic_error&) { }
            try { (void) d.master(); (void) d.decl_set().size(); } catch (const std::logic_error&) { }
            d.accept(av);
         } }
         try { (void) tpl->parameters().size(); (void) tpl->result(); } catch (const std::logic_error&) { }
         (void) static_cast<const ipr::Block&>(*body).try_block();

         // -- substitutions
         auto* es = lex.make_elementary_substitution(*tp, pint);
         (void) static_cast<const ipr::Substitution&>(*es)[*tp];
         (void) static_cast<const ipr::Substitution&>(*es)[*pa];
         auto* gsub = lex.make_general_substitution();
         gsub->subst(*tp, L.int_type()).subst(*pa, lit7).subst(*tp, pint);
         (void) static_cast<const ipr::Substitution&>(*gsub)[*tp];
         (void) static_cast<const ipr::Substitution&>(*gsub)[*pa];

         // -- printing: the unit with and without locations, pieces on their own, numbers in between
         for (int locations = 0; locations < 2; ++locations) {
            std::ostringstream os;
            os << std::hex << std::showbase;
            ipr::Printer pp{ lex, os };
            pp.print_locations = locations != 0;
            try { pp << unit; } catch (const std::logic_error&) { os << "<refused>"; }
            for (auto t : types) { try { pp << ipr::xpr_type(*t); } catch (const std::logic_error&) { os << "<refused>"; } os << ' '; }
            for (auto e : exprs) { try { pp << ipr::xpr_expr(*e); } catch (const std::logic_error&) { os << "<refused>"; } os << ' '; }
            try { pp << ipr::xpr_stmt(*body); } catch (const std::logic_error&) { os << "<refused>"; }
            out += os.str();
         }
         out += std::to_string(av.n);
      }

      inline void module_program(ipr::impl::Lexicon& lex, std::string& out)
      {
         ipr::impl::Module mod{ lex };
         auto* iu = mod.make_unit();
         iu->global_region()->declare_var(lex.get_identifier(u8"x"), static_cast<const ipr::Lexicon&>(lex).int_type());
         mod.iface.global_region()->declare_var(lex.get_identifier(u8"y"), static_cast<const ipr::Lexicon&>(lex).int_type());
         std::ostringstream os;
         ipr::Printer pp{ lex, os };
         try { pp << static_cast<const ipr::Translation_unit&>(*iu); } catch (const std::logic_error&) { }
         out += os.str();
      }

      struct Decoy {
         ipr::impl::Lexicon lex;
         ipr::impl::Translation_unit unit{ lex };
         std::string text;
         Decoy() { program(lex, unit, text); module_program(lex, text); }
      };
   }

   // Called by every harness right after it parsed its options (through vf::install_crash_handler).
   inline void prelude()
   {
      const char* e = std::getenv("VERIF_PRELUDE");
      if (e == nullptr or *e == 0 or std::strcmp(e, "0") == 0) return;
      std::string first, second;
      { prelude_detail::Decoy d; first = d.text; }                 // lived and died
      static prelude_detail::Decoy* alive = new prelude_detail::Decoy;     // stays alive for the rest of the process
      second = alive->text;
      if (first != second) {
         // not an oracle of any property on its own (C17 states it); say so and go on
         std::fprintf(stderr, "prelude: the two decoy Lexicons printed different text (%zu / %zu bytes)\n", first.size(), second.size());
      }
   }
}

#endif
