// engine/prelude.hpp -- "start from a non-initial state": a decoy Lexicon that lived and died before the harness begins,
// and a second one that stays alive while it runs.
//
// Every property is stated for "a Lexicon", not for "the first Lexicon of the process".  The explorers start every
// execution from a fresh Lexicon, but the *process* they run in is fresh too -- so anything the library keeps outside a
// Lexicon (a function-local static, a thread_local, a file-scope cache, a recycled pool) is in its initial state at the
// start of every harness run, which is precisely the state in which such a cache still looks right.  With
// VERIF_PRELUDE=1 in the environment every harness first runs one fixed, broad construction-and-printing program on a
// decoy Lexicon, destroys it, runs the same program on a second decoy and keeps that one alive, and only then starts its
// exploration.  The exploration and its oracle are unchanged: on a library that keeps nothing outside its Lexicons the
// verdict cannot differ (the decoys share nothing with the Lexicons under test except the documented constants).
//
// The program asks for the same spellings, types and constants the harnesses ask for (reserved words, the empty word,
// "C"/"C++", the short names x, y, T, m0, ...), so that a process-wide memo filled by the decoy collides with the harness.
//
// Attribution: the decoys of the check of property X only perform the *kinds of operation X's own alphabet consists of*
// (sections below, chosen per property in sections_for): a crash of the second decoy while it asks for qualified types
// says something about C11, not about C12.  A check never runs a section its property has no business with.
#ifndef VERIF_PRELUDE_HPP
#define VERIF_PRELUDE_HPP

#include <ipr/impl>
#include <ipr/io>
#include <cstdlib>
#include <cstring>
#include <sstream>
#include <stdexcept>
#include <string>
#include <vector>

namespace vf {
   namespace prelude_detail {
      struct AnyVisitor : ipr::Visitor {
         long n = 0;
         using ipr::Visitor::visit;
         void visit(const ipr::Node&) override { ++n; }
         void visit(const ipr::Expr&) override { ++n; }
         void visit(const ipr::Name&) override { ++n; }
         void visit(const ipr::Type&) override { ++n; }
         void visit(const ipr::Directive&) override { ++n; }
         void visit(const ipr::Stmt&) override { ++n; }
         void visit(const ipr::Decl&) override { ++n; }
      };

      enum : unsigned { WORDS = 1, CONSTS = 2, LINK = 4, SPEC = 8, TYPES = 16, NAMES = 32, EXPRS = 64, DECLS = 128, SUBST = 256, PRINT = 512, VISIT = 1024, MODULE = 2048,
                        CONSTRUCTION = WORDS | CONSTS | LINK | SPEC | TYPES | NAMES | EXPRS | DECLS | SUBST | MODULE, ALL = CONSTRUCTION | PRINT | VISIT };

      // Which kinds of operation the decoys of each check perform: those its property quantifies over.
      inline unsigned sections_for(const char* prop)
      {
         static const struct { const char* id; unsigned sections; } table[] = {
            { "C01", WORDS | CONSTS | LINK | TYPES },                    // unified types (linkage and convention are part of a function type's key)
            { "C02", CONSTRUCTION },                                     // every factory
            { "C03", WORDS },                                            // interned words
            { "C04", WORDS | CONSTS | TYPES | NAMES },                   // names and atoms (conversion / constructor names are keyed on types)
            { "C05", CONSTRUCTION },                                     // identity of everything handed out
            { "C06", CONSTRUCTION | VISIT },                             // category, accept, visitor defaults
            { "C07", WORDS | TYPES | DECLS },                            // scopes, overload sets, declaration sets
            { "C08", 0 },                                                // the tree utility on its own: no Lexicon is involved
            { "C09", CONSTRUCTION },                                     // the type of every node
            { "C10", WORDS | SPEC },                                     // specifier and qualifier sets
            { "C11", WORDS | TYPES },                                    // qualified types (qualifier sets through the named accessors)
            { "C12", WORDS | TYPES | DECLS | MODULE },                   // regions
            { "C13", WORDS | CONSTS | LINK | TYPES | NAMES },            // Lexicon constants and the routes from a spelling to them
            { "C14", CONSTRUCTION },                                     // accessors of everything
            { "C15", CONSTRUCTION },                                     // derived operations
            { "C16", WORDS | TYPES | DECLS | SUBST },                    // substitutions over parameters
            { "C17", ALL }, { "C18", ALL },                              // printing
            { "C19", ALL }, { "C20", ALL },                              // lifetime and isolation of whole Lexicons
         };
         for (auto& row : table) if (std::strcmp(row.id, prop) == 0) return row.sections;
         return 0;
      }

      // Every section is self-contained: it asks for the words, types and atoms it needs itself, as the harness of a property
      // whose alphabet is that section does.
      struct Program {
         ipr::impl::Lexicon& lex;
         ipr::impl::Translation_unit& unit;
         std::string& out;
         unsigned sections;
         const ipr::Lexicon& L;
         AnyVisitor av;
         Program(ipr::impl::Lexicon& l, ipr::impl::Translation_unit& u, std::string& o, unsigned s) : lex{ l }, unit{ u }, out{ o }, sections{ s }, L{ l } { }

         bool on(unsigned s) const { return (sections & s) != 0; }
         void look(const ipr::Node& n) { if (on(VISIT)) n.accept(av); }
         const ipr::Identifier& id(const char8_t* s) { return lex.get_identifier(s); }
         const ipr::Expr& idx(const char8_t* s) { return *lex.make_id_expr(lex.get_identifier(s)); }

         void words()
         {
            static const char8_t* const spellings[] = {
               u8"", u8"x", u8"y", u8"s", u8"T", u8"g", u8"f", u8"r", u8"a", u8"b", u8"m0", u8"m1", u8"m2", u8"N", u8"E", u8"C", u8"D", u8"C++", u8"Java",
               u8"int", u8"const", u8"volatile", u8"static", u8"default", u8"delete", u8"this", u8"unsigned long long", u8"alpha", u8"beta", u8"retry", u8"done",
               u8"count", u8"bufsz", u8"second", u8"Widget", u8"Gadget", u8"Colour", u8"red", u8"green", u8"blue", u8"local-08", u8"v0", u8"e0", u8"e1", u8"it",
               u8"a-rather-long-word-that-needs-several-granules", u8"exactly8", u8"exactly-twenty-four-byte", u8"+", u8"()", u8"[]", u8"<=>", u8"_km",
               u8"stdcall", u8"fastcall", u8"cdecl", u8"thiscall", u8"vectorcall" };
            for (auto w : spellings) { auto& s = lex.get_string(w); out.append(reinterpret_cast<const char*>(s.characters().data()), s.characters().size()); }
            for (auto w : spellings) { auto& s = lex.get_string(w); (void) s.characters().size(); }
         }

         void constants()
         {
            const ipr::Type* builtins[] = { &L.void_type(), &L.bool_type(), &L.char_type(), &L.schar_type(), &L.uchar_type(), &L.wchar_t_type(), &L.char8_t_type(), &L.char16_t_type(),
                                            &L.char32_t_type(), &L.short_type(), &L.ushort_type(), &L.int_type(), &L.uint_type(), &L.long_type(), &L.ulong_type(), &L.long_long_type(),
                                            &L.ulong_long_type(), &L.float_type(), &L.double_type(), &L.long_double_type(), &L.ellipsis_type(), &L.typename_type(), &L.class_type(),
                                            &L.union_type(), &L.enum_type(), &L.namespace_type() };
            for (auto t : builtins) { (void) t->name(); (void) t->type(); look(*t); }
            for (auto c : { &L.false_value(), &L.true_value(), &L.nullptr_value(), &L.default_value(), &L.delete_value() }) { (void) c->name(); (void) c->type(); }
            for (auto w : { u8"int", u8"bool", u8"unsigned long long", u8"", u8"this", u8"default", u8"x" }) { auto& i = id(w); (void) lex.get_identifier(lex.get_string(w)); look(i); }
         }

         void linkages()
         {
            auto& lc = lex.get_linkage(u8"C");
            auto& lcxx = lex.get_linkage(u8"C++");
            auto& lj = lex.get_linkage(u8"Java");
            (void) (lc == L.c_linkage()); (void) (lcxx == L.cxx_linkage());
            auto& natural = lex.get_calling_convention(u8"");
            auto& stdcall = lex.get_calling_convention(u8"stdcall");
            auto& fastcall = lex.get_calling_convention(u8"fastcall");
            (void) lex.get_transfer_from_linkage(lc);
            (void) lex.get_transfer_from_convention(stdcall);
            (void) lex.get_transfer(lj, fastcall);
            (void) lex.get_transfer(lc, natural);
            (void) lex.get_transfer(lcxx, fastcall);
            (void) lex.get_transfer(lcxx, natural);
         }

         void specifiers()
         {
            auto cvr = L.const_qualifier() | L.volatile_qualifier() | L.restrict_qualifier();
            (void) lex.decompose(cvr);
            (void) lex.decompose(L.static_specifier() | L.constexpr_specifier() | L.inline_specifier() | L.virtual_specifier());
            for (auto w : { u8"const", u8"volatile", u8"restrict" }) (void) lex.qualifiers(ipr::Basic_qualifier{ lex.get_logogram(lex.get_string(w)) });
            for (auto w : { u8"static", u8"extern", u8"inline", u8"virtual", u8"constexpr", u8"mutable", u8"public", u8"export" }) (void) lex.specifiers(ipr::Basic_specifier{ lex.get_logogram(lex.get_string(w)) });
            try { (void) lex.qualifiers(ipr::Basic_qualifier{ lex.get_logogram(lex.get_string(u8"no-such-qualifier")) }); } catch (...) { }
            try { (void) lex.specifiers(ipr::Basic_specifier{ lex.get_logogram(lex.get_string(u8"const")) }); } catch (...) { }
         }

         std::vector<const ipr::Type*> made_types;
         void types()
         {
            auto& pint = lex.get_pointer(L.int_type());
            auto& ppint = lex.get_pointer(pint);
            auto& rint = lex.get_reference(L.int_type());
            auto& rrint = lex.get_rvalue_reference(L.int_type());
            auto& cint = lex.get_qualified(L.const_qualifier(), L.int_type());
            auto& cvint = lex.get_qualified(L.volatile_qualifier(), cint);
            auto& cvrp = lex.get_qualified(L.const_qualifier() | L.volatile_qualifier() | L.restrict_qualifier(), pint);
            try { (void) lex.get_qualified(ipr::Qualifiers{ }, L.int_type()); } catch (...) { }
            auto& arr = lex.get_array(L.char_type(), *lex.make_literal(L.int_type(), u8"8"));
            ipr::impl::Warehouse<ipr::Type> w0, w1, w2, wt;
            w1.push_back(L.int_type());
            w2.push_back(L.int_type()); w2.push_back(pint);
            wt.push_back(L.typename_type());
            auto& p0 = lex.get_product(w0);
            auto& p1 = lex.get_product(w1);
            auto& p2 = lex.get_product(w2);
            auto& s2 = lex.get_sum(w2);
            auto& xc = lex.get_transfer_from_linkage(lex.get_linkage(u8"C"));
            auto& xs = lex.get_transfer_from_convention(lex.get_calling_convention(u8"stdcall"));
            auto& xxf = lex.get_transfer(lex.get_linkage(u8"C++"), lex.get_calling_convention(u8"fastcall"));
            auto& f0 = lex.get_function(p0, L.void_type());
            auto& f1 = lex.get_function(p1, L.int_type());
            auto& f1c = lex.get_function(p1, L.int_type(), xc);
            auto& f1s = lex.get_function(p1, L.int_type(), xs);
            auto& f1x = lex.get_function(p1, L.int_type(), xxf);
            auto& f2t = lex.get_function(p2, cvint, L.true_value());
            (void) lex.get_tor(p1, s2);
            auto& pm = lex.get_ptr_to_member(L.class_type(), L.int_type());
            auto& dt = lex.get_decltype(idx(u8"x"));
            auto& au = lex.get_auto();
            auto& at_i = lex.get_as_type(id(u8"int"));
            auto& at_T = lex.get_as_type(id(u8"T"));
            auto& at_e = lex.get_as_type(idx(u8"T"));
            auto& fa = lex.get_forall(lex.get_product(wt), L.class_type());
            made_types = { &pint, &ppint, &rint, &rrint, &cint, &cvint, &cvrp, &arr, &p0, &p1, &p2, &s2, &f0, &f1, &f1c, &f1s, &f1x, &f2t, &pm, &dt, &au, &at_i, &at_T, &at_e, &fa };
            for (auto t : made_types) { (void) t->type(); try { (void) t->name(); } catch (const std::logic_error&) { } look(*t); }
            (void) f1c.transfer(); (void) f1c.linkage(); (void) f2t.throws();
         }

         void names()
         {
            auto& pint = lex.get_pointer(L.int_type());
            auto& at_T = lex.get_as_type(id(u8"T"));
            auto& op_plus = lex.get_operator(u8"+");
            const ipr::Name* made[] = { &op_plus, &lex.get_operator(lex.get_string(u8"()")), &lex.get_suffix(id(u8"_km")), &lex.get_conversion(pint), &lex.get_ctor_name(at_T), &lex.get_dtor_name(at_T) };
            for (auto n : made) look(*n);
            (void) lex.get_this(L.class_type()); (void) lex.get_this(pint); (void) lex.get_this(L.class_type());
            (void) lex.get_literal(L.int_type(), u8"7").type();
            (void) lex.get_literal(L.char_type(), u8"a\nb\x01\x02z").type();
            (void) lex.get_label(id(u8"retry")).type();
            (void) lex.get_label(id(u8"default"));
            (void) lex.get_symbol(op_plus, L.int_type()).type();
            (void) lex.get_symbol(op_plus, L.char_type());
            (void) lex.get_symbol(id(u8"x"), L.int_type());
         }

         std::vector<const ipr::Expr*> made_exprs;
         void expressions()
         {
            auto& lit7 = lex.get_literal(L.int_type(), u8"7");
            auto* sum = lex.make_plus(lit7, *lex.make_mul(idx(u8"x"), idx(u8"y")));
            auto* args = lex.make_expr_list();
            args->push_back(sum); args->push_back(&idx(u8"s"));
            auto* call = lex.make_call(idx(u8"g"), *args);
            auto* cond = lex.make_conditional(idx(u8"x"), *call, *lex.make_unary_minus(lit7));
            auto* cast = lex.make_static_cast(lex.get_pointer(L.int_type()), *lex.make_address(idx(u8"y")));
            auto& tid = lex.get_template_id(idx(u8"T"), *args);
            auto* enc = lex.make_enclosure(ipr::Delimiter::Brace, *args);
            auto* cons = lex.make_construction(lex.get_as_type(id(u8"T")), *enc);
            auto* nw = lex.make_new({ }, *cons);
            made_exprs = { sum, call, cond, cast, lex.make_id_expr(tid), cons, nw, lex.make_sizeof(idx(u8"x")), lex.make_not(idx(u8"y")), lex.make_assign(idx(u8"x"), lit7),
                           lex.make_array_ref(idx(u8"x"), lit7), lex.make_dot(idx(u8"x"), idx(u8"m0")), lex.make_arrow(idx(u8"y"), idx(u8"m1")), lex.make_comma(idx(u8"x"), idx(u8"y")),
                           lex.make_post_increment(idx(u8"x")), lex.make_deref(idx(u8"y")), lex.make_throw(lit7) };
            for (auto e : made_exprs) { try { (void) e->type(); } catch (const std::logic_error&) { } look(*e); }
         }

         // declarations, scopes and regions: variables (with a redeclaration and an overload), an alias, a function with a body 30
         // blocks deep and two handlers, class / enum / union / namespace, a template and its redeclaration; then lookups
         ipr::impl::Block* body = nullptr;
         ipr::impl::Parameter* value_param = nullptr;
         ipr::impl::Parameter* type_param = nullptr;
         void declarations()
         {
            auto& G = *unit.global_region();
            auto& lit7 = lex.get_literal(L.int_type(), u8"7");
            auto& pint = lex.get_pointer(L.int_type());
            auto& cint = lex.get_qualified(L.const_qualifier(), L.int_type());
            ipr::impl::Warehouse<ipr::Type> w1, wt;
            w1.push_back(L.int_type());
            wt.push_back(L.typename_type());
            auto& f1 = lex.get_function(lex.get_product(w1), L.int_type());
            auto& f1c = lex.get_function(lex.get_product(w1), L.int_type(), lex.get_transfer_from_linkage(lex.get_linkage(u8"C")));
            auto& fa = lex.get_forall(lex.get_product(wt), L.class_type());
            auto& lab = lex.get_label(id(u8"retry"));
            auto* sum = lex.make_plus(lit7, *lex.make_mul(idx(u8"x"), idx(u8"y")));

            auto* v = G.declare_var(id(u8"count"), cint);
            v->init = lex.make_literal(L.int_type(), u8"1024");
            v->src_locus = ipr::Source_location{ ipr::Line_number{ 11 }, ipr::Column_number{ 22 }, ipr::File_index{ 1 } };
            v->decl_data.spec = L.static_specifier() | L.constexpr_specifier();
            G.declare_var(id(u8"x"), L.int_type());
            G.declare_var(id(u8"x"), L.int_type())->init = sum;          // a redeclaration
            G.declare_var(id(u8"x"), L.char_type());                     // same name, another type
            G.declare_alias(id(u8"y"), pint);
            auto* fn = G.declare_fun(id(u8"f"), f1);
            auto* m = lex.make_mapping(G, ipr::Mapping_level{ 0 });
            value_param = m->param(id(u8"a"), L.int_type());
            m->param(id(u8""), L.int_type());
            value_param->init = &lit7;
            m->typing = &f1;
            body = lex.make_block(m->inputs.region());
            {
               ipr::impl::Block* cur = body;
               for (int d = 0; d < 30; ++d) { auto* inner = lex.make_block(cur->lexical_region); cur->add_stmt(*inner); cur = inner; }
               auto* local = cur->lexical_region.declare_var(id(u8"local-08"), L.int_type());
               local->init = sum;
               local->src_locus = ipr::Source_location{ ipr::Line_number{ 3 }, ipr::Column_number{ 4 }, ipr::File_index{ 2 } };
               cur->add_stmt(*local);
               auto* wh = lex.make_while(); wh->control = lex.make_not(idx(u8"y")); wh->stmt = lex.make_break();
               cur->add_stmt(*wh);
               auto* fr = lex.make_for(); fr->init = lex.make_assign(idx(u8"x"), lit7); fr->cond = &idx(u8"x"); fr->inc = lex.make_post_increment(idx(u8"x")); fr->stmt = lex.make_continue();
               cur->add_stmt(*fr);
               cur->add_stmt(*lex.make_if(idx(u8"x"), *lex.make_return(*sum), *lex.make_goto(lab)));
               cur->add_stmt(*lex.make_labeled_stmt(lab, *lex.make_expr_stmt(*sum)));
               auto* sw = lex.make_switch(); sw->control = &idx(u8"x"); sw->stmt = lex.make_break();
               cur->add_stmt(*sw);
               auto* h = body->new_handler(id(u8"e0"), L.int_type());
               h->body().add_stmt(*lex.make_return(lit7));
               auto* h2 = body->new_handler(id(u8"e1"), L.ellipsis_type());
               h2->body().add_stmt(*lex.make_expr_stmt(*lex.make_throw(lit7)));
            }
            m->body = body;
            fn->data.emplace<1>(m);

            auto* cls = lex.make_class(G);
            cls->id = &id(u8"Widget");
            auto* base = lex.make_class(G); base->id = &id(u8"D");
            cls->declare_base(*base); cls->declare_base(lex.get_as_type(id(u8"T")));
            cls->declare_field(id(u8"m0"), L.int_type());
            cls->declare_field(id(u8"m1"), lex.get_pointer(*cls));
            cls->declare_bitfield(id(u8"m2"), L.int_type())->length = &lit7;
            G.declare_type(id(u8"Widget"), L.class_type())->init = cls;
            auto* en = lex.make_enum(G, ipr::Enum::Kind::Scoped);
            en->id = &id(u8"Colour");
            for (auto w : { u8"red", u8"green", u8"blue" }) en->add_member(id(w))->init = &lit7;
            G.declare_type(id(u8"Colour"), L.enum_type())->init = en;
            auto* un = lex.make_union(G); un->id = &id(u8"E");
            un->declare_field(id(u8"m0"), L.int_type()); un->declare_field(id(u8"m1"), pint);
            G.declare_type(id(u8"E"), L.union_type())->init = un;
            auto* ns = lex.make_namespace(G); ns->id = &id(u8"N");
            ns->declare_var(id(u8"m0"), L.int_type())->init = &lit7;
            G.declare_type(id(u8"N"), L.namespace_type())->init = ns;

            auto* tm = lex.make_mapping(G, ipr::Mapping_level{ 0 });
            type_param = tm->param(id(u8"T"), L.typename_type());
            tm->typing = &fa;
            tm->body = &pint;
            auto* tpl = G.declare_primary_template(id(u8"T"), fa);
            tpl->init = tm;
            G.declare_primary_template(id(u8"T"), fa);                     // a redeclaration
            (void) lex.get_guide_name(*tpl);
            G.declare_fun(id(u8"f"), f1c);                                 // (no mapping: the printer refuses it, so it comes last)

            const ipr::Scope& gs = G.bindings();
            for (auto w : { u8"x", u8"f", u8"T", u8"count", u8"nothing-declared" }) {
               auto ov = gs[id(w)];
               if (ov.is_valid()) { auto& o = ov.get(); (void) o[L.int_type()]; (void) o[L.char_type()]; }
            }
            for (auto& d : gs.elements()) {
               (void) d.name(); (void) d.type();
               try { (void) d.home_region(); (void) d.lexical_region(); } catch (const std::logic_error&) { }
               try { (void) d.master(); (void) d.decl_set().size(); } catch (const std::logic_error&) { }
               look(d);
            }
            try { (void) tpl->parameters().size(); (void) tpl->result(); } catch (const std::logic_error&) { }
            (void) static_cast<const ipr::Block&>(*body).try_block();
            for (const ipr::Region* r = &cls->region(); not r->global(); r = &r->enclosing()) (void) r->owner();
         }

         void substitutions()
         {
            if (type_param == nullptr) {       // (a check whose alphabet has substitutions has parameters too)
               auto* m = lex.make_mapping(*unit.global_region(), ipr::Mapping_level{ 1 });
               type_param = m->param(id(u8"T"), L.typename_type());
               value_param = m->param(id(u8"a"), L.int_type());
            }
            auto& pint = lex.get_pointer(L.int_type());
            auto& lit7 = lex.get_literal(L.int_type(), u8"7");
            auto* es = lex.make_elementary_substitution(*type_param, pint);
            (void) static_cast<const ipr::Substitution&>(*es)[*type_param];
            (void) static_cast<const ipr::Substitution&>(*es)[*value_param];
            auto* gsub = lex.make_general_substitution();
            gsub->subst(*type_param, L.int_type()).subst(*value_param, lit7).subst(*type_param, pint);
            (void) static_cast<const ipr::Substitution&>(*gsub)[*type_param];
            (void) static_cast<const ipr::Substitution&>(*gsub)[*value_param];
         }

         // the unit with and without locations, pieces on their own, on a stream that is not in its default configuration
         void printing()
         {
            for (int locations = 0; locations < 2; ++locations) {
               std::ostringstream os;
               os << std::hex << std::showbase;
               ipr::Printer pp{ lex, os };
               pp.print_locations = locations != 0;
               try { pp << unit; } catch (const std::logic_error&) { os << "<refused>"; }
               for (auto t : made_types) { try { pp << ipr::xpr_type(*t); } catch (const std::logic_error&) { os << "<refused>"; } os << ' '; }
               for (auto e : made_exprs) { try { pp << ipr::xpr_expr(*e); } catch (const std::logic_error&) { os << "<refused>"; } os << ' '; }
               if (body != nullptr) try { pp << ipr::xpr_stmt(*body); } catch (const std::logic_error&) { os << "<refused>"; }
               out += os.str();
            }
         }

         void module()
         {
            ipr::impl::Module mod{ lex };
            auto* iu = mod.make_unit();
            iu->global_region()->declare_var(id(u8"x"), L.int_type());
            mod.iface.global_region()->declare_var(id(u8"y"), L.int_type());
            (void) static_cast<const ipr::Module_unit&>(*iu).parent_module();
            if (on(PRINT)) {
               std::ostringstream os;
               ipr::Printer pp{ lex, os };
               try { pp << static_cast<const ipr::Translation_unit&>(*iu); } catch (const std::logic_error&) { }
               out += os.str();
            }
         }

         void run()
         {
            if (on(WORDS)) words();
            if (on(CONSTS)) constants();
            if (on(LINK)) linkages();
            if (on(SPEC)) specifiers();
            if (on(TYPES)) types();
            if (on(NAMES)) names();
            if (on(EXPRS)) expressions();
            if (on(DECLS)) declarations();
            if (on(SUBST)) substitutions();
            if (on(PRINT)) printing();
            if (on(MODULE)) module();
            out += std::to_string(av.n);
         }
      };

      struct Decoy {
         ipr::impl::Lexicon lex;
         ipr::impl::Translation_unit unit{ lex };
         std::string text;
         explicit Decoy(unsigned sections) { Program{ lex, unit, text, sections }.run(); }
      };
   }

   // Called by every harness right after it parsed its options (through vf::install_crash_handler).
   inline void prelude(const char* prop)
   {
      const char* e = std::getenv("VERIF_PRELUDE");
      if (e == nullptr or *e == 0 or std::strcmp(e, "0") == 0) return;
      const unsigned sections = prelude_detail::sections_for(prop);
      if (sections == 0) return;
      { prelude_detail::Decoy d{ sections }; }                                       // lived and died
      static prelude_detail::Decoy* alive = new prelude_detail::Decoy{ sections };   // stays alive for the rest of the process
      (void) alive;
   }
}

#endif
