#include "envctl.hpp"
#include "report.hpp"

#include <cstdint>
#include <cstdio>
#include <cstdlib>
#include <cstring>
#include <new>
#include <dlfcn.h>
#include <malloc.h>
#include <sys/mman.h>

namespace vf::env {
   void (*hook)(int) = nullptr;

   namespace {
      // 12 GiB of address space, touched lazily: in the alternating personality consecutive nodes come from opposite ends, so
      // node addresses differ by far more than 2^32 (a comparator that narrows an address difference shows at once)
      constexpr std::size_t arena_size = std::size_t(3) << 32;
      char* arena_lo = nullptr;
      char* arena_hi = nullptr;
      char* cur_lo = nullptr;
      char* cur_hi = nullptr;
      bool alt_toggle = false;
      constexpr std::size_t lane_base = std::size_t(1) << 32;      // the lanes of the alternating personality start 4 GiB into the arena
      char* lane_cur[3] = { nullptr, nullptr, nullptr };
      int lane_next = 0;
      // Survivors.  arena_reset() forgets what was allocated since the last reset -- which is only sound if nothing of it is
      // still in use.  The library may legitimately keep something for the rest of the process (an immutable function-local
      // static table built on first use): blocks that are still live at a reset are therefore never handed out again.  The
      // floors below are where each region restarts; they move past the survivors, once, when some are found.
      char* floor_lo = nullptr;                 // ascending region restarts here (initially arena_lo)
      char* floor_hi = nullptr;                 // descending region restarts here (initially arena_hi)
      char* lane_floor[3] = { nullptr, nullptr, nullptr };
      long long arena_live = 0;                 // blocks taken from the arena since the last reset and not given back yet
      long long pinned_resets = 0;
      Alloc mode = Alloc::Malloc;
      Hash hash_mode = Hash::Real;
      long long n_hash = 0;

      thread_local Stats st;

      // Optional live-pointer table (open addressing) for delete matching; single-threaded use only.
      bool tracking = false;
      constexpr std::size_t tab_size = std::size_t(1) << 22;
      void** table = nullptr;

      void tab_insert(void* p)
      {
         if (table == nullptr)
            table = static_cast<void**>(std::calloc(tab_size, sizeof(void*)));
         auto h = (reinterpret_cast<std::uintptr_t>(p) >> 4) * 0x9E3779B97F4A7C15ull;
         for (std::size_t i = h & (tab_size - 1);; i = (i + 1) & (tab_size - 1))
            if (table[i] == nullptr or table[i] == reinterpret_cast<void*>(1)) {
               table[i] = p;
               return;
            }
      }

      bool tab_erase(void* p)
      {
         if (table == nullptr) return false;
         auto h = (reinterpret_cast<std::uintptr_t>(p) >> 4) * 0x9E3779B97F4A7C15ull;
         for (std::size_t i = h & (tab_size - 1);; i = (i + 1) & (tab_size - 1)) {
            if (table[i] == nullptr) return false;
            if (table[i] == p) {
               table[i] = reinterpret_cast<void*>(1);     // tombstone
               return true;
            }
         }
      }

      void ensure_arena()
      {
         if (arena_lo != nullptr) return;
         void* p = mmap(nullptr, arena_size, PROT_READ | PROT_WRITE, MAP_PRIVATE | MAP_ANONYMOUS | MAP_NORESERVE, -1, 0);
         if (p == MAP_FAILED) {
            std::fprintf(stderr, "envctl: cannot map arena\n");
            std::abort();
         }
         arena_lo = static_cast<char*>(p);
         arena_hi = arena_lo + arena_size;
         cur_lo = floor_lo = arena_lo;
         cur_hi = floor_hi = arena_hi;
         for (int l = 0; l < 3; ++l) lane_floor[l] = arena_lo + lane_base + (std::size_t(3) << 29) * std::size_t(l);
      }

      inline bool in_arena(const void* p)
      {
         return arena_lo != nullptr and p >= arena_lo and p < arena_hi;
      }

      // a block of the arena that lies below a floor survived an earlier reset: it is no longer counted
      inline bool pinned(const void* q)
      {
         const char* p = static_cast<const char*>(q);
         if (p < floor_lo or p >= floor_hi) return true;
         for (int l = 0; l < 3; ++l) {
            const char* lo = arena_lo + lane_base + (std::size_t(3) << 29) * std::size_t(l);
            if (p >= lo and p < lo + (std::size_t(3) << 29)) return p < lane_floor[l];
         }
         return false;
      }

      void* arena_take(std::size_t n, std::size_t align)
      {
         ensure_arena();
         if (align < 16) align = 16;
         n = (n + align - 1) & ~(align - 1);
         if (n == 0) n = align;
         ++arena_live;
         if (mode == Alloc::Alternating) {
            // three lanes 1.5 GiB apart, served round-robin: consecutive nodes a < b < c with b - a and c - b below 2^31 but
            // c - a above it (an address difference narrowed to 32 bits makes the order cyclic); every pair of consecutive
            // allocations also gets both relative orders across the lanes
            static_assert(arena_size >= (std::size_t(9) << 29));
            const int l = lane_next;
            lane_next = (lane_next + 1) % 3;
            if (lane_cur[l] == nullptr) lane_cur[l] = lane_floor[l];
            auto a = (reinterpret_cast<std::uintptr_t>(lane_cur[l]) + align - 1) & ~(std::uintptr_t(align) - 1);
            if (a + n > reinterpret_cast<std::uintptr_t>(arena_lo) + lane_base + (std::size_t(3) << 29) * std::size_t(l + 1)) { std::fprintf(stderr, "envctl: arena lane exhausted\n"); std::abort(); }
            lane_cur[l] = reinterpret_cast<char*>(a) + n;
            return reinterpret_cast<void*>(a);
         }
         bool low = mode == Alloc::Ascending;
         if (std::size_t(cur_hi - cur_lo) < n + align) {
            std::fprintf(stderr, "envctl: arena exhausted\n");
            std::abort();
         }
         if (low) {
            auto a = (reinterpret_cast<std::uintptr_t>(cur_lo) + align - 1) & ~(std::uintptr_t(align) - 1);
            cur_lo = reinterpret_cast<char*>(a) + n;
            return reinterpret_cast<void*>(a);
         }
         auto a = (reinterpret_cast<std::uintptr_t>(cur_hi) - n) & ~(std::uintptr_t(align) - 1);
         cur_hi = reinterpret_cast<char*>(a);
         return cur_hi;
      }

      void* take(std::size_t n, std::size_t align)
      {
         if (hook) hook(0);
         void* p;
         std::size_t accounted;
         if (mode == Alloc::Malloc) {
            p = align > 16 ? std::aligned_alloc(align, (n + align - 1) & ~(align - 1)) : std::malloc(n ? n : 1);
            if (p == nullptr) throw std::bad_alloc{};
            accounted = malloc_usable_size(p);
         }
         else {
            p = arena_take(n, align);
            accounted = 0;
         }
         ++st.news;
         ++st.live_blocks;
         st.live_bytes += accounted;
         if (tracking) tab_insert(p);
         return p;
      }

      void give(void* p)
      {
         if (p == nullptr) return;
         if (hook) hook(1);
         ++st.deletes;
         --st.live_blocks;
         if (tracking and not tab_erase(p)) ++st.bad_deletes;
         if (in_arena(p)) { if (not pinned(p)) --arena_live; return; }
         st.live_bytes -= malloc_usable_size(p);
         std::free(p);
      }
   }

   namespace {
      struct Install {
         Install()
         {
            vf::persist_enter = [] { int m = int(mode); mode = Alloc::Malloc; return m; };
            vf::persist_leave = [](int m) { mode = Alloc(m); };
         }
      } install;
   }

   void set_alloc(Alloc a) { mode = a; }
   Alloc get_alloc() { return mode; }
   const char* alloc_name(Alloc a)
   {
      switch (a) {
      case Alloc::Malloc: return "malloc";
      case Alloc::Ascending: return "ascending";
      case Alloc::Descending: return "descending";
      case Alloc::Alternating: return "alternating";
      }
      return "?";
   }

   void arena_reset()
   {
      if (arena_lo == nullptr) return;
      if (arena_live > 0) {
         // something allocated since the last reset is still alive (see "Survivors" above): keep it -- every region restarts
         // behind what it has handed out so far
         floor_lo = cur_lo;
         floor_hi = cur_hi;
         for (int l = 0; l < 3; ++l) if (lane_cur[l] != nullptr) lane_floor[l] = lane_cur[l];
         ++pinned_resets;
      }
      arena_live = 0;
      // Give the touched pages back so that long enumerations do not accumulate resident memory.
      auto drop = [](char* a, char* b) {       // whole pages strictly inside [a, b): nothing outside the range is touched
         auto lo = (reinterpret_cast<std::uintptr_t>(a) + 4095) & ~std::uintptr_t(4095);
         auto hi = reinterpret_cast<std::uintptr_t>(b) & ~std::uintptr_t(4095);
         if (hi > lo and hi - lo > (std::uintptr_t(64) << 20)) madvise(reinterpret_cast<void*>(lo), hi - lo, MADV_DONTNEED);
      };
      drop(floor_lo, cur_lo);
      drop(cur_hi, floor_hi);
      for (int l = 0; l < 3; ++l) {
         if (lane_cur[l] != nullptr) drop(lane_floor[l], lane_cur[l]);
         lane_cur[l] = nullptr;
      }
      lane_next = 0;
      cur_lo = floor_lo;
      cur_hi = floor_hi;
      alt_toggle = false;
   }

   long long survivors_pinned() { return pinned_resets; }

   namespace {
      struct Epilogue {
         ~Epilogue() { if (pinned_resets > 0) std::fprintf(stderr, "envctl: %lld arena reset(s) found blocks still alive and kept them\n", pinned_resets); }
      } epilogue;
   }

   Stats stats() { return st; }
   void track_pointers(bool b) { tracking = b; }

   void set_hash(Hash h) { hash_mode = h; }
   const char* hash_name(Hash h)
   {
      switch (h) {
      case Hash::Real: return "real";
      case Hash::Constant: return "constant";
      case Hash::Length: return "length";
      }
      return "?";
   }
   long long hash_calls() { return n_hash; }

   std::size_t do_hash(const void* p, std::size_t n, std::size_t seed)
   {
      using F = std::size_t (*)(const void*, std::size_t, std::size_t);
      static F real = reinterpret_cast<F>(dlsym(RTLD_NEXT, "_ZSt11_Hash_bytesPKvmm"));
      ++n_hash;
      if (hook) hook(2);
      switch (hash_mode) {
      case Hash::Constant: return 42;
      case Hash::Length: return n;
      default: break;
      }
      if (real) return real(p, n, seed);
      // FNV-1a fallback (only if the genuine function cannot be found).
      std::size_t h = 1469598103934665603ull ^ seed;
      for (std::size_t i = 0; i < n; ++i) { h ^= static_cast<const unsigned char*>(p)[i]; h *= 1099511628211ull; }
      return h;
   }
}

// Pre-empt libstdc++'s exported hash function (ordinary symbol interposition from the executable).
namespace std {
   size_t _Hash_bytes(const void* p, size_t n, size_t seed) { return vf::env::do_hash(p, n, seed); }
}

void* operator new(std::size_t n) { return vf::env::take(n, 16); }
void* operator new[](std::size_t n) { return vf::env::take(n, 16); }
void* operator new(std::size_t n, std::align_val_t a) { return vf::env::take(n, std::size_t(a)); }
void* operator new[](std::size_t n, std::align_val_t a) { return vf::env::take(n, std::size_t(a)); }
void* operator new(std::size_t n, const std::nothrow_t&) noexcept { try { return vf::env::take(n, 16); } catch (...) { return nullptr; } }
void* operator new[](std::size_t n, const std::nothrow_t&) noexcept { try { return vf::env::take(n, 16); } catch (...) { return nullptr; } }
void operator delete(void* p) noexcept { vf::env::give(p); }
void operator delete[](void* p) noexcept { vf::env::give(p); }
void operator delete(void* p, std::size_t) noexcept { vf::env::give(p); }
void operator delete[](void* p, std::size_t) noexcept { vf::env::give(p); }
void operator delete(void* p, std::align_val_t) noexcept { vf::env::give(p); }
void operator delete[](void* p, std::align_val_t) noexcept { vf::env::give(p); }
void operator delete(void* p, std::size_t, std::align_val_t) noexcept { vf::env::give(p); }
void operator delete[](void* p, std::size_t, std::align_val_t) noexcept { vf::env::give(p); }
