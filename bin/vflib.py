"""Shared driver code for /verif: content-hash cached builds of the repository under test and of the
harnesses, shard execution, merging of harness reports, known-findings handling, evidence files.

Only the python3 standard library is used.  Everything is rebuilt from $VERIF_REPO (default /repo) as
it stands in the working tree; build products live under /verif/build (git-ignored)."""
import fcntl
import hashlib
import json
import os
import shutil
import subprocess
import sys
import time

VERIF = os.path.dirname(os.path.dirname(os.path.abspath(__file__)))
REPO = os.environ.get("VERIF_REPO", "/repo")
BUILD = os.path.join(VERIF, "build")
GUARD = "IPR_VERIF"
NCPU = os.cpu_count() or 4

LIB_SOURCES = ["interface.cxx", "impl.cxx", "io.cxx", "traversal.cxx", "utility.cxx"]

VARIANTS = {
    # name: (compiler, flags)
    "fast": ("g++", ["-O2"]),
    "asan": ("g++", ["-O1", "-fsanitize=address,undefined", "-fno-sanitize-recover=all",
                     "-fno-omit-frame-pointer"]),
    "tsan": ("clang++", ["-O1", "-g", "-fsanitize=thread", "-Wno-delete-non-abstract-non-virtual-dtor"]),
}
COMMON = ["-std=c++20", "-Wno-overloaded-virtual", "-D" + GUARD, "-pthread"]


# Sanitizer reports abort the process (SIGABRT), which the harness' crash handler turns into a violation record naming
# the execution in progress.  LeakSanitizer is off: leaks are decided by exact accounting in C19, not by a scan at exit.
SAN_ENV = {
    "ASAN_OPTIONS": "detect_leaks=0:abort_on_error=1:detect_stack_use_after_return=0:allocator_may_return_null=1",
    "UBSAN_OPTIONS": "print_stacktrace=1:halt_on_error=1:abort_on_error=1",
    "TSAN_OPTIONS": "halt_on_error=0:exitcode=66:report_signal_unsafe=0",
}


def log(*a):
    print(*a, file=sys.stderr, flush=True)


def _hash_files(paths, extra=""):
    h = hashlib.sha256()
    h.update(extra.encode())
    for p in sorted(paths):
        h.update(p.encode())
        with open(p, "rb") as f:
            h.update(f.read())
    return h.hexdigest()[:16]


def repo_files():
    out = []
    for sub in ("include/ipr", "src"):
        d = os.path.join(REPO, sub)
        for name in sorted(os.listdir(d)):
            p = os.path.join(d, name)
            if os.path.isfile(p) and name != "ChangeLog":
                out.append(p)
    return out


def repo_hash():
    return _hash_files(repo_files(), REPO)


class Lock:
    def __init__(self, name):
        os.makedirs(BUILD, exist_ok=True)
        self.path = os.path.join(BUILD, name + ".lock")

    def __enter__(self):
        self.f = open(self.path, "w")
        fcntl.flock(self.f, fcntl.LOCK_EX)
        return self

    def __exit__(self, *a):
        fcntl.flock(self.f, fcntl.LOCK_UN)
        self.f.close()


class BuildError(Exception):
    pass


def _run_all(cmds, what):
    """Run compile commands in parallel; raise BuildError with the first failing output."""
    procs = [(c, subprocess.Popen(c, stdout=subprocess.PIPE, stderr=subprocess.STDOUT, text=True)) for c in cmds]
    bad = None
    for c, p in procs:
        out, _ = p.communicate()
        if p.returncode != 0 and bad is None:
            bad = (c, out)
    if bad:
        raise BuildError("%s failed: %s\n%s" % (what, " ".join(bad[0]), bad[1][-6000:]))


def _prune(prefix, keep):
    """Keep the `keep` most recently used build directories with this prefix."""
    try:
        ds = [os.path.join(BUILD, d) for d in os.listdir(BUILD) if d.startswith(prefix) and os.path.isdir(os.path.join(BUILD, d))]
    except FileNotFoundError:
        return
    ds.sort(key=lambda d: os.path.getmtime(d), reverse=True)
    for d in ds[keep:]:
        shutil.rmtree(d, ignore_errors=True)


def build_lib(variant):
    """Static library of the repository's current working tree for one flag set."""
    cxx, flags = VARIANTS[variant]
    h = _hash_files(repo_files(), REPO + variant + " ".join(flags))
    d = os.path.join(BUILD, "lib-%s-%s" % (variant, h))
    lib = os.path.join(d, "libipr.a")
    with Lock("lib-" + variant):
        if os.path.exists(lib):
            os.utime(d, None)
            return lib
        t0 = time.time()
        tmp = d + ".tmp%d" % os.getpid()
        shutil.rmtree(tmp, ignore_errors=True)
        os.makedirs(tmp)
        cmds, objs = [], []
        for s in LIB_SOURCES:
            o = os.path.join(tmp, s.replace(".cxx", ".o"))
            objs.append(o)
            cmds.append([cxx] + COMMON + flags + ["-I", os.path.join(REPO, "include"), "-c",
                                                 os.path.join(REPO, "src", s), "-o", o])
        try:
            _run_all(cmds, "library build (%s)" % variant)
            tmplib = os.path.join(tmp, "libipr.a")
            subprocess.check_call(["ar", "rcs", tmplib] + objs)
        except Exception:
            shutil.rmtree(tmp, ignore_errors=True)
            raise
        shutil.rmtree(d, ignore_errors=True)
        os.rename(tmp, d)
        _prune("lib-%s-" % variant, 8)
        log("[build] libipr (%s) %.1fs" % (variant, time.time() - t0))
        return lib


def engine_files():
    d = os.path.join(VERIF, "engine")
    return [os.path.join(d, n) for n in sorted(os.listdir(d)) if os.path.isfile(os.path.join(d, n))]


def build_shared_object(src, variant, deps):
    """One translation unit shared by several harnesses (the zoo), cached per (variant, repo, sources)."""
    cxx, vflags = VARIANTS[variant]
    vflags = [f if f != "-O2" else "-O1" for f in vflags]
    if variant in ("asan", "tsan"):
        # the zoo is template-heavy: optimisation and debug info triple its compile time under the sanitizers
        vflags = [f for f in vflags if f not in ("-O1", "-g")] + ["-O0"]
    flags = COMMON + vflags
    path = os.path.join(VERIF, src)
    allf = [path] + [os.path.join(VERIF, d) for d in deps] + engine_files() + repo_files()
    h = _hash_files(allf, REPO + " ".join(flags))
    tag = os.path.basename(src).replace(".", "_")
    d = os.path.join(BUILD, "o-%s-%s-%s" % (tag, variant, h))
    obj = os.path.join(d, tag + ".o")
    with Lock("o-%s-%s" % (tag, variant)):
        if os.path.exists(obj):
            os.utime(d, None)
            return obj
        t0 = time.time()
        tmp = d + ".tmp%d" % os.getpid()
        shutil.rmtree(tmp, ignore_errors=True)
        os.makedirs(tmp)
        inc = ["-I", os.path.join(REPO, "include"), "-I", os.path.join(VERIF, "engine"), "-I", VERIF, "-I", os.path.join(REPO, "src")]
        try:
            _run_all([[cxx] + flags + inc + ["-c", path, "-o", os.path.join(tmp, tag + ".o")]], "shared object %s" % src)
        except Exception:
            shutil.rmtree(tmp, ignore_errors=True)
            raise
        shutil.rmtree(d, ignore_errors=True)
        os.rename(tmp, d)
        _prune("o-%s-%s-" % (tag, variant), 6)
        log("[build] %s (%s) %.1fs" % (src, variant, time.time() - t0))
        return obj


def build_harness(name, spec):
    """spec: dict(src=[...], variant=..., flags=[...], lib=bool, units=[[...]...])"""
    variant = spec.get("variant", "fast")
    cxx, vflags = VARIANTS[variant]
    srcs = [os.path.join(VERIF, s) for s in spec["src"]]
    deps = srcs + engine_files() + [os.path.join(VERIF, s) for s in spec.get("deps", []) + spec.get("shared", [])]
    flags = COMMON + vflags + spec.get("flags", [])
    h = _hash_files(deps + repo_files(), REPO + " ".join(flags))
    d = os.path.join(BUILD, "h-%s-%s-%s" % (name, variant, h))
    exe = os.path.join(d, name)
    lib = build_lib(variant) if spec.get("lib", True) else None
    import concurrent.futures
    with concurrent.futures.ThreadPoolExecutor(max_workers=8) as ex:
        shared = list(ex.map(lambda x: build_shared_object(x, variant, spec.get("deps", [])), spec.get("shared", [])))
    with Lock("h-%s-%s" % (name, variant)):
        if os.path.exists(exe):
            os.utime(d, None)
            return exe
        t0 = time.time()
        tmp = d + ".tmp%d" % os.getpid()
        shutil.rmtree(tmp, ignore_errors=True)
        os.makedirs(tmp)
        inc = ["-I", os.path.join(REPO, "include"), "-I", os.path.join(VERIF, "engine"), "-I", VERIF,
               "-I", os.path.join(REPO, "src")]
        cmds, objs = [], []
        for s in srcs:
            o = os.path.join(tmp, os.path.basename(s) + ".o")
            objs.append(o)
            per = spec.get("per_source_flags", {}).get(os.path.relpath(s, VERIF), [])
            c = cxx
            if s.endswith(".c"):
                c = "gcc" if cxx == "g++" else "clang"
                fl = [f for f in flags if not f.startswith("-std=") and f != "-Wno-overloaded-virtual"
                      and f != "-fno-access-control" and f != "-Wno-delete-non-abstract-non-virtual-dtor"]
                if "nosan" in per:
                    fl = [f for f in fl if not f.startswith("-fsanitize") and not f.startswith("-fno-sanitize")]
                cmds.append([c] + fl + inc + ["-c", s, "-o", o])
            else:
                cmds.append([c] + flags + per + inc + ["-c", s, "-o", o])
        try:
            _run_all(cmds, "harness build (%s)" % name)
            link = [cxx] + flags + objs + shared + ([lib] if lib else []) + ["-o", os.path.join(tmp, name)] + spec.get("ldflags", [])
            _run_all([link], "harness link (%s)" % name)
        except Exception:
            shutil.rmtree(tmp, ignore_errors=True)
            raise
        shutil.rmtree(d, ignore_errors=True)
        os.rename(tmp, d)
        _prune("h-%s-%s-" % (name, variant), 4)
        log("[build] harness %s (%s) %.1fs" % (name, variant, time.time() - t0))
        return exe


# ---------------------------------------------------------------------------------------------
# Running harnesses and merging their reports

def run_shards(exe, tier, shards, deadline_s, hard_timeout_s, seed, workdir, extra_args=(), env=None):
    """Run `shards` copies of a harness in parallel.  Returns (records, crashes) where records is the list of
    parsed JSON lines and crashes a list of dicts describing shards that did not finish normally."""
    os.makedirs(workdir, exist_ok=True)
    procs = []
    for i in range(shards):
        out = os.path.join(workdir, "shard%d.jsonl" % i)
        logp = os.path.join(workdir, "shard%d.log" % i)
        for stale in (out, out + ".crash"):
            if os.path.exists(stale):
                os.remove(stale)
        cmd = [exe, "--tier", tier, "--shard", "%d/%d" % (i, shards), "--out", out,
               "--deadline", str(deadline_s), "--seed", str(seed)] + list(extra_args)
        lf = open(logp, "w")
        e = dict(os.environ)
        if env:
            e.update(env)
        procs.append((i, cmd, out, logp, lf, subprocess.Popen(cmd, stdout=lf, stderr=subprocess.STDOUT, env=e, cwd=workdir)))
    records, crashes = [], []
    t_end = time.time() + hard_timeout_s
    for i, cmd, out, logp, lf, p in procs:
        try:
            rc = p.wait(timeout=max(1.0, t_end - time.time()))
        except subprocess.TimeoutExpired:
            p.kill()
            p.wait()
            rc = "timeout"
        lf.close()
        ok_done = False
        if os.path.exists(out):
            with open(out) as f:
                for line in f:
                    line = line.strip()
                    if not line:
                        continue
                    try:
                        r = json.loads(line)
                    except ValueError:
                        continue
                    r["_shard"] = i
                    records.append(r)
                    if r.get("t") == "done":
                        ok_done = True
        crashp = out + ".crash"
        if os.path.exists(crashp):
            with open(crashp, errors="replace") as f:
                for line in f:
                    try:
                        r = json.loads(line)
                        r["_shard"] = i
                        records.append(r)
                    except ValueError:
                        pass
            os.remove(crashp)
        if rc != 0 or not ok_done:
            with open(logp, errors="replace") as f:
                tail = f.read()[-4000:]
            crashes.append({"shard": i, "rc": rc, "cmd": cmd, "log_tail": tail})
    return records, crashes


def merge(records):
    viols, counters, sets, samples, infos = {}, {}, {}, [], {}
    exhaustive = True
    for r in records:
        t = r.get("t")
        if t == "violation":
            k = r["key"]
            if isinstance(r.get("witness"), dict) and r.get("_pass") and "pass" not in r["witness"]:
                r["witness"]["pass"] = r["_pass"]          # bin/check --replay re-runs the pass (variant, environment) that saw it
            v = viols.get(k)
            if v is None:
                viols[k] = dict(r)
            else:
                v["count"] += r["count"]
                if r["rank"] < v["rank"]:
                    v.update(rank=r["rank"], what=r["what"], witness=r["witness"])
        elif t == "counter":
            n = r["name"]
            if n.startswith("max_"):
                counters[n] = max(counters.get(n, 0), r["value"])
            else:
                counters[n] = counters.get(n, 0) + r["value"]
        elif t == "set":
            sets.setdefault(r["name"], set()).update(r["values"])
        elif t == "sample":
            if len(samples) < 8:
                samples.append(r["value"])
        elif t == "info":
            infos[r["name"]] = r["value"]
        elif t == "done":
            exhaustive = exhaustive and bool(r.get("exhaustive"))
    return viols, counters, sets, samples, infos, exhaustive


def load_known_findings():
    """known-findings.txt lines:  finding: property=<ID> key=<key> <text>   |   fixed: property=<ID> <commit> key=<key> <text>"""
    known = {}
    p = os.path.join(VERIF, "known-findings.txt")
    if not os.path.exists(p):
        return known
    with open(p) as f:
        for line in f:
            line = line.strip()
            if not line.startswith("finding:"):
                continue
            parts = line.split()
            prop = key = None
            for w in parts[1:]:
                if w.startswith("property="):
                    prop = w[len("property="):]
                elif w.startswith("key="):
                    key = w[len("key="):]
            if prop and key:
                known[(prop, key)] = line
    return known


def write_evidence(prop, tier, seed, coverage, assumptions, wall_s, nviol):
    ev = {
        "property_id": prop,
        "tier": tier,
        "seed": int(seed),
        "level": "model_checking",
        "coverage": coverage,
        "assumptions": assumptions,
        "wall_s": round(wall_s, 3),
        "violations": int(nviol),
    }
    d = os.environ.get("VERIF_EVIDENCE_DIR") or os.path.join(VERIF, "evidence")
    os.makedirs(d, exist_ok=True)
    p = os.path.join(d, prop + ".json")
    tmp = p + ".tmp%d" % os.getpid()
    with open(tmp, "w") as f:
        json.dump(ev, f, indent=1, sort_keys=True)
        f.write("\n")
    os.replace(tmp, p)
    return p
