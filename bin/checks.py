"""Table of checks: one entry per property of properties.jsonl that is claimed.  bin/check and bin/gen-manifest
both read it, so MANIFEST.json cannot drift from what the driver runs."""

ENV = ["engine/envctl.cpp"]
ZOO = ["zoo/zoo.cpp", "zoo/rows_expr.cpp", "zoo/rows_types_names.cpp", "zoo/rows_stmt_decl.cpp", "zoo/rows_forms.cpp", "zoo/rows_internals.cpp"]
ZOO_DEPS = ["zoo/zoo.hpp", "zoo/zoo_impl.hpp", "zoo/describe.hpp", "zoo/categories.inc", "zoo/rows_expr.inc", "zoo/rows_types_names.inc",
            "zoo/rows_stmt_decl.inc", "zoo/rows_forms.inc", "zoo/rows_internals.inc"]

ASSUME_COMMON = [
    "bounded: only histories/inputs inside the stated bounds are covered (small-scope hypothesis)",
    "the C++ toolchain (g++ 12 / clang 14, libstdc++) and, where used, ASan/UBSan/TSan are trusted",
]

CHECKS = {}


def check(pid, passes, rule, text, note, technique, engine, assumptions=(), deadline=None, design="3"):
    CHECKS[pid] = dict(passes=passes, rule=rule, text=text, note=note, technique=technique, engine=engine,
                       assumptions=ASSUME_COMMON + list(assumptions), deadline=deadline or {}, design=design)


check("C08",
      passes=[dict(name="C08", src=["harness/C08.cpp"] + ENV, variant="fast",
                   shards={"quick": 16, "thorough": 16})],
      rule="every permutation of n distinct keys (n<=8 quick, n<=10 thorough) and every duplicate-bearing sequence "
           "(len<=7 over 4 keys, len<=6 over 5 keys; thorough len<=8) is inserted into both tree flavours under four "
           "comparators (integers; addresses; lexicographic sequences; a 64-bit difference far outside the range of int); after EVERY insertion: BST order, black root, no red-red, equal black height, parent links, "
           "height<=2log2(n+1), size, every inserted key found at its node, every gap/end key absent, equal key returns "
           "the existing element without changing shape; then adversarial long orders up to 2*10^4 (2*10^5 thorough) keys. "
           "distinct_nontrivial = distinct (shape,colouring) pairs reached.",
      text="Bounded exhaustive exploration of the real rb_tree templates: all insertion orders up to the bound, "
           "validated after every step against the red-black definition and a boring presence table.",
      note="Trusts that harness classes derived from the protected core see the same root/count the library uses. "
           "Comparators used are total orders (the lexicographic one is itself checked on all 40^3 triples).",
      technique="explicit enumeration of all insertion sequences up to a bound on the implementation, invariant "
                "checked in every reached state",
      engine="rbtree", design="3/C08")

check("C10",
      passes=[dict(name="C10", src=["harness/C10.cpp"], variant="fast", shards={"quick": 8, "thorough": 16})],
      rule="ALL 2^18 subsets of the 18 basic specifiers and all 2^3 subsets of qualifiers are built as unions of "
           "Lexicon::specifiers(name) and decomposed (exact, no repeats, order-independent, injective); binary laws "
           "| & ^ implies |= &= ^= against a uint32 mask model on every pair (A any, B of size or co-size <= 2) in quick and on "
           "ALL 2^36 pairs in thorough; 17+3 named accessors; every non-basic reserved word, the invisible logogram and "
           "dynamic logograms must be refused; request histories: ALL ordered pairs over {specifiers, qualifiers} x {56 reserved "
           "words, invisible, dynamic} and all ordered triples over a reduced alphabet (every basic name in both families + 4/12 "
           "others): each answer (value or refusal) must be what the name alone determines; | & ^ implies and the compound "
           "assignments on all 64x64 pairs of (one-bit, two-bit) raw values over the full width of the representation; ALL histories of <= 3 (4) letters over "
           "two Lexicons A and B {ask A / ask B one of 12 questions (name lookups in both families, decompositions of 4 specifier and 2 qualifier "
           "sets), destroy B, create B}: every answer is what the question alone determines. distinct_nontrivial = non-empty subsets "
           "enumerated.",
      text="The finite configuration space of the property is closed completely (unary laws in both tiers, binary "
           "laws in thorough) on the real Lexicon and the real header operators, against a bitmask reference model.",
      note="The list of 18 basic names and 56 reserved words is written down in the harness from the interface "
           "documentation; 'refused' means any exception and no value.",
      technique="complete enumeration of the configuration space on the implementation against a bitmask model",
      engine="bitalgebra", design="3/C10", deadline={"quick": 120, "thorough": 1500})

check("C16",
      passes=[dict(name="C16", src=["harness/C16.cpp"] + ENV, variant="fast", shards={"quick": 8, "thorough": 16})],
      rule="elementary: all 5x3x5 (bound parameter, value, queried parameter) triples over parameters of three lists (two lists at "
           "the same nesting level, so members share level and position pairwise; three parameters share a name); general: ALL binding "
           "sequences of length <= 4 (quick) / <= 5 (thorough) over 15 (parameter,value) pairs incl. rebinding, all parameters queried "
           "after every step; and ALL histories of length <= 5 (quick) / <= 6 (thorough) over the alphabet {15 bindings + 5 queries} "
           "(queries and rebindings interleaved in every order), each on a fresh Lexicon, every query compared (by node identity) with a "
           "std::map last-write-wins model; every binding sequence of length <= 3 with a second Lexicon (holding a general substitution of its "
           "own) created before step i and destroyed before step j, all i <= j; 1100 (70000) elementary substitutions from one Lexicon, all "
           "queried again afterwards. distinct_nontrivial = distinct final maps reached.",
      text="Every operation sequence up to the bound is executed on the real substitution classes and compared with "
           "a reference map after every step.",
      note="Parameters come from two parameter lists (two share a name); one value is itself a parameter so that a "
           "chained application would be visible.",
      technique="exhaustive enumeration of operation sequences up to a depth bound on the implementation against a reference model",
      engine="explore", design="3/C16")

check("C11",
      passes=[dict(name="C11", src=["harness/C11.cpp"] + ENV, variant="fast", shards={"quick": 8, "thorough": 16})],
      rule="for each of 6 unqualified base types (built-in, pointer, class, array, function, as-type) and EVERY sequence of "
           "<= 3 (quick) / <= 5 (thorough) successive get_qualified requests over the 7 non-empty qualifier sets, x {direct "
           "request first / last} x {nothing else / unrelated constructions interleaved / a second live Lexicon makes each request of the chain first / a "
           "transient Lexicon repeats the chain so far before each step and dies}, on a fresh Lexicon: every prefix result is the "
           "node of get_qualified(union, T), qualifiers()==union, main_variant()==T and is not a Qualified, the empty set is "
           "refused at every stage and changes nothing; after each chain all 7 sets are requested directly over the same T, twice "
           "(own node each, found again); plus all 7! orders of the seven direct requests over one type and 84 keys (7 sets x 12 types) in one table under six "
           "insertion orders x four heap-address personalities, a refused request before every request; chains run under a personality chosen by the history. distinct_nontrivial = "
           "distinct (base, union, length) triples.",
      text="The complete space of qualification chains up to the bound is executed on the real type factory and "
           "compared with the normal form the interface documents.",
      note="'refused' = any exception. Only the seven subsets of {const, volatile, restrict} exist as qualifier values.",
      technique="exhaustive enumeration of request sequences up to a depth bound on the implementation against the documented normal form",
      engine="explore", design="3/C11")

check("C13",
      passes=[dict(name="C13", src=["harness/C13.cpp"], variant="fast", shards={"quick": 1, "thorough": 1})],
      rule="finite configuration space closed completely in both tiers: 26 built-in type accessors + 5 symbolic constants + "
           "2 linkages, on 3 Lexicons alive at once (one after 100 unrelated constructions) and 1 created after they were "
           "destroyed; all 325+10 unordered pairs distinct; documented spelling; self-denoting; type typename; natural "
           "transfer; typing of the constants; every spelling->node route (identifier->as-type through both get_identifier "
           "overloads, word/String->linkage, identifier->label, expression->decltype) returns the constant itself, also on a Lexicon "
           "with a hostile history (every spelling-keyed factory asked for the constants' spellings with other arguments and for near "
           "misses first) and when the spelling is presented in a reused buffer that held another word of the same length; same "
           "addresses from every Lexicon. distinct_nontrivial = number of constants examined.",
      text="Complete enumeration of a finite configuration space on the real Lexicon against a hand-written table of "
           "documented spellings.",
      note="The accessor->spelling table is transcribed from the comments of ipr::Lexicon (ushort read as 'unsigned short').",
      technique="complete enumeration of a finite configuration space on the implementation against a documented table",
      engine="explore", design="3/C13")

check("C03",
      passes=[dict(name="C03", src=["harness/C03.cpp"] + ENV, variant="fast", flags=["-fno-access-control"],
                   shards={"quick": 14, "thorough": 16}),
              dict(name="C03asan", src=["harness/C03.cpp"] + ENV, variant="asan", flags=["-fno-access-control"],
                   shards={"quick": 10, "thorough": 10}, args={"quick": ["--sweeps-only"], "thorough": ["--sweeps-only"]})],
      rule="(1) EVERY sequence of intern() calls of length <= 4 (quick) / <= 5 (thorough) over a 14-word alphabet (lengths "
           "0,1,7,8,9,23,24,25; equal-length neighbours; embedded NULs; unterminated view; reserved word and near misses) under "
           "three hash personalities (real, one bucket, length-only), each on a fresh pool, source buffer scribbled after every "
           "call, every String returned so far re-read after every step and identity compared with content equality against "
           "a std::map model; (1b) every sequence of <= 4 (5) interns over {pool A, pool B} x 5 words with two pools alive after a third "
           "one lived and died, both pools re-read after every step; (2) sweeps: lengths 0..300, 256 byte values x 4 positions, 42 (remaining,needed) roll-over shapes "
           "confirmed by introspection, 34 oversize shapes, 7*10^4 words across pools; (3) all 56 reserved words through 5 routes "
           "and ~2000 near misses. The sweeps are repeated under ASan+UBSan. distinct_nontrivial = histories with a repeated word.",
      text="All operation sequences up to the bound plus deterministic boundary sweeps on the real string pool and "
           "arena, against a map reference model re-validated after every step.",
      note="std::_Hash_bytes is interposed by the harness executable to force bucket collisions; private arena state is "
           "read (-fno-access-control) only to confirm that each roll-over shape was really reached.",
      technique="exhaustive enumeration of operation sequences up to a depth bound on the implementation, with environment "
                "deviations (hash personalities), against a reference model",
      engine="explore", design="3/C03")

check("C01",
      passes=[dict(name="C01", src=["harness/C01.cpp"] + ENV, variant="fast", shards={"quick": 16, "thorough": 16})],
      rule="every history of type-constructor requests (22 request forms: pointer, reference, rvalue reference, array, "
           "qualified x7 sets, function with/without throws and transfer, product/sum from a warehouse and from an existing "
           "sequence, forall, pointer-to-member, tor, as-type of expression / expression+transfer / identifier, three transfer "
           "constructors, and one request that must be refused -- an empty qualifier set -- after which everything is answered as before) with operands from {int, char, class C, results of earlier steps}: full alphabet to depth 2 (quick) / 3 "
           "(thorough), compact alphabet to depth 3 / 4, each under ascending, descending and alternating heap-address orders; "
           "per step the model (key with normal forms -> id) decides 'must be node #k' or 'must be a node never seen'; all requests "
           "re-issued in 3 orders at the end; plus long histories of 1024 (4096) keys per constructor family in 3 insertion orders "
           "x 4 address modes; the compact alphabet again to depth 2 (3) with a second Lexicon that performs every request right after the "
           "first one (each against its own model), and with a transient Lexicon that repeats the history so far after every step and dies. "
           "distinct_nontrivial = histories in which some request had to hit an existing node.",
      text="All request histories up to the bound are executed on the real type factory under controlled address "
           "orders and compared step by step with a key->node reference model.",
      note="Normal forms are applied to the model key (nested qualification, natural transfer omitted, default throws = false). "
           "Transfers built by different constructor functions may share a node; products are only keyed on sequences that no "
           "longer change.",
      technique="exhaustive enumeration of operation histories up to a depth bound on the implementation, with environment "
                "deviations (address-order personalities), against a reference model",
      engine="explore", design="3/C01", deadline={"quick": 150, "thorough": 1500})

check("C04",
      passes=[dict(name="C04", src=["harness/C04.cpp"] + ENV, variant="fast", shards={"quick": 16, "thorough": 16})],
      rule="every history of name/atom requests (identifier and operator through both overloads, suffix, conversion, ctor, dtor, "
           "guide name, template-id, logogram, symbol, label, this, literal through 3 entry points, linkage through both overloads, "
           "calling convention) over the spellings {a, b, \"\", int, default, this, C, C++, Java, +} and types {int, char, C, void}, "
           "operands also taken from earlier results: full alphabet to depth 2 (quick) / 3 (thorough), compact alphabet to depth 3 / 4, "
           "under ascending, descending, alternating address orders; key->node model per step (label(id) == symbol(id, void), "
           "this(T) == symbol(identifier this, T), label(default) == default_value(), linkage C/C++ == the constants); in every final "
           "state: one Identifier node per spelling among all reachable ones (incl. names of the 26 built-ins and 5 constants), and "
           "operator== on logogram/linkage/convention values <=> equal spelling; all 56 reserved words through both get_identifier "
           "overloads; long histories of 1024 (4096) keys per constructor x 3 insertion orders x 4 address modes; 70000 (200000) distinct "
           "identifiers, each re-requested and re-read afterwards; value equalities: 5 linkage x 6 convention spellings (incl. near-misses C+ / stdcal "
           "and a convention spelled C), every linkage, convention and transfer obtained through every public route (both overloads, "
           "two-argument transfer, from-linkage / from-convention shorthands, a function type's transfer()), twice, in two request "
           "orders: == and != on ALL pairs <=> same spelling(s), one node per linkage / convention spelling; the compact alphabet again to depth 2 (3) "
           "with a second Lexicon that performs every request right after the first one (each against its own model), and with a transient "
           "Lexicon that repeats the history so far after every step and dies.",
      text="All request histories up to the bound on the real name/expression factories under controlled address orders, "
           "against a key->node reference model plus two whole-state invariants.",
      note="Identity is compared on interface pointers of the same interface type. The model identifies label(id) with "
           "symbol(id, void) and this(T) with symbol('this', T) as the interface documents.",
      technique="exhaustive enumeration of operation histories up to a depth bound on the implementation, with environment "
                "deviations (address-order personalities), against a reference model",
      engine="explore", design="3/C04", deadline={"quick": 150, "thorough": 1500})

check("C07",
      passes=[dict(name="C07", src=["harness/C07.cpp"] + ENV, variant="fast", shards={"quick": 16, "thorough": 16})],
      rule="ALL sequences of <= 6 (quick) / <= 8 (thorough) declarations over 9 (name,type) pairs (2 identifiers + 1 operator name x 3 "
           "types) under 4 kind assignments covering var, field, bit-field, alias, type, function, primary and secondary template, each "
           "on a fresh Lexicon with an address personality chosen by the history; in every final state the scope is compared with the "
           "plain vector model: elements() order, Product type, lookup of every name (3 declared-or-not + 1 never declared), selection by "
           "every type, and per declaration category/name/type/master/decl_set; plus all arrangements of <= 5 parameters (x 3^n types), "
           "enumerators, <= 4 bases, 0..3 handlers: positions, singleton sets, lookup; scopes are examined at the end of a history, and "
           "additionally after exactly one step (every step) and after every step; one name with 12 and 40 (200) pairwise distinct "
           "types through three declaration kinds, every type selected after every addition, every pair redeclared; member lists of "
           "300 and 1100 (70000). histories of <= 4 declarations also with a second Lexicon in lockstep and with a transient Lexicon repeating the history so far after every step, both validated like the first. distinct_nontrivial = histories with a redeclaration.",
      text="Every declaration history up to the bound is executed on the real scope machinery and the whole scope is "
           "compared with a vector reference model.",
      note="Each (name,type) pair is only ever used by one declaration kind, as the property requires; names within one "
           "parameter/enumerator/base list are pairwise distinct.",
      technique="exhaustive enumeration of operation histories up to a depth bound on the implementation against a reference model",
      engine="explore", design="3/C07", deadline={"quick": 150, "thorough": 1500})

check("C12",
      passes=[dict(name="C12", src=["harness/C12.cpp"] + ENV, variant="fast", shards={"quick": 16, "thorough": 16})],
      rule="every history of <= 4 (quick) / <= 5 (thorough) region-opening operations (sub-region, class with 2 bases, union, enum "
           "with 3 enumerators, namespace, closure, block, block with 2 handlers, mapping and lambda with 3 parameters, requires, "
           "function declarator, where), each applied to ANY region created so far, in a plain translation unit; depth <= 3 / <= 4 in an "
           "interface unit and a module implementation unit; in every final state, for every region: enclosing()==model parent, the "
           "outward walk reaches the global region in exactly depth steps, global() only at the root (whose enclosing() throws "
           "logic_error), owner() per kind; parameters/enumerators/bases: home region, level, zero-based position; handler regions; "
           "unnamed global namespace typed `namespace` and named by the unit's own Lexicon; module links; plus member lists of 300, 1100 "
           "and 66000 (thorough 70000; past 2^16) parameters (mapping, lambda, requires, function declarator), enumerators and up to 2000 bases: position == index, "
           "level, home region; histories of <= 3 operations also with a second Lexicon opening the same regions in lockstep and with a transient "
           "Lexicon repeating the history so far after every step, both validated like the first. distinct_nontrivial = histories nesting to depth >= 2.",
      text="All construction histories up to the bound on the real region/unit classes against a parent-pointer tree "
           "and owner-map reference model.",
      note="Not asserted (the property is silent): an owner for plain sub-regions, requires / function-declarator / where / "
           "handler-parameter regions, and the home region of an exception parameter.",
      technique="exhaustive enumeration of operation histories up to a depth bound on the implementation against a reference model",
      engine="explore", design="3/C12", deadline={"quick": 150, "thorough": 1500})

check("C15",
      passes=[dict(name="C15", src=["harness/C15.cpp"], variant="fast", shards={"quick": 1, "thorough": 1})],
      rule="finite state space closed completely in both tiers: products, sums, expression lists, classes (with bases), unions, "
           "namespaces (with redeclarations), enums, closures, parameter lists/mappings/templates with 0, 1, 3 members; blocks with "
           "0, 1, 2 handlers and every handler body block; parameters with/without initializer; 8 types with natural and non-natural "
           "transfer; every Sequence implementation (ref_sequence, obj_sequence, obj_list, empty_sequence, singleton_obj, singleton_ref, "
           "typed_sequence, decl_sequence, both faces of homogeneous_scope); ALL pairs (and triples for transitivity) of values from "
           "pools of 13 logograms, 9 linkages, 6 conventions, 9 transfers, 10 basic specifiers, 9 basic qualifiers, 5 strings, some equal "
           "by spelling but obtained through different routes. distinct_nontrivial = states examined.",
      text="Complete enumeration of a finite state space on the real nodes: each derived operation is evaluated "
           "next to its defining primitives on the same node.",
      note="The definitions are those spelled in <ipr/interface> and <ipr/ancillary>.",
      technique="complete enumeration of a finite state space on the implementation; derived operation vs definition on every state",
      engine="explore", design="3/C15")

check("C06",
      passes=[dict(name="C06", src=["harness/C06.cpp"], shared=ZOO, deps=ZOO_DEPS, variant="fast", shards={"quick": 1, "thorough": 1})],
      rule="finite configuration space closed completely in both tiers: every node instance built by every row of the factory "
           "table plus the implementation classes no factory returns (27 built-ins, 5 symbolic constants, decltype(nullptr), empty "
           "string, reserved-word identifiers, Type_id of composite types, typed-sequence products, homogeneous scopes/regions, singleton "
           "and heterogeneous overload sets, handler blocks, global namespace) (classic expressions also with their implementation() link set to a declaration) x {category; accept with a visitor overriding all 159 leaf "
           "hooks + 8 abstract ones; a visitor overriding only the 7 pure sinks; one also overriding visit(Classic); view<K> for all 159 "
           "K}; all of it again after 300 visits of every node by a visitor whose hooks all refuse; and the constants, internals and the "
           "global namespaces (with their names) of three kinds of unit on a second Lexicon created after the first one was destroyed and "
           "its storage put to other use. distinct_nontrivial = distinct implementation classes (typeid) examined.",
      text="Complete enumeration of a finite configuration space on the real nodes; expectations are computed from the "
           "documented interface class of each factory result by std::is_base_of, not from the implementation.",
      note="The interface class of each row is the return type the factory documents (a row does not compile if the factory "
           "returns something else). Categories without any instance are listed and force exhaustive:false.",
      technique="complete enumeration of a finite configuration space on the implementation against expectations derived from the interface types",
      engine="zoo", design="3/C06")

check("C02",
      passes=[dict(name="C02", src=["harness/C02.cpp"] + ENV, shared=ZOO, deps=ZOO_DEPS, variant="fast", shards={"quick": 12, "thorough": 12})],
      rule="the complete product factory row (one per factory overload of form_factory, attr_factory, capture_spec_factory, "
           "type_factory, name_factory, expr_factory, dir_factory, stmt_factory, Lexicon, Scope/Region/Udt declare_*, Enum, Class, Block, "
           "Parameter_list, Mapping, Module) x 12 operand rotations (each under one of four heap-address personalities: malloc, ascending, descending, alternating) x optional parts supplied / not supplied x 6 histories (fresh Lexicon; "
           "after 1000 unrelated constructions; after the whole table was built once; every node re-read after the table was rebuilt "
           "11 times with all other rotations in units of their own on the same Lexicon; in the place of a Lexicon that built the same table and died, "
           "node for node at the same addresses; every row on its own twice in a row, the second time at the addresses of the first); each documented accessor (primitive and named "
           "alias) must return exactly the argument given (identity for nodes, value for enumerators/qualifiers/positions/strings), "
           "unsupplied optional parts read as absent or refuse with logic_error, settable links read back after being set; every "
           "Scope::make_* called three times with one name and type: each redeclaration reports what ITS call was given, per-declaration "
           "parts stay per declaration; all 343 triples of seven equal-length words handed to get_string / get_identifier / make_literal through ONE buffer refilled in place: "
           "each node reports the characters the buffer held at its call. distinct_nontrivial = distinct row variants built.",
      text="Complete enumeration of the finite space row x operand choice x optional parts on the real factories; "
           "expectations are written from the interface documentation.",
      note="Every row gives pairwise-distinct operands to different positions. make_annotation and make_token are declared "
           "but defined nowhere: their public classes are constructed directly. Declared normal forms (qualifier merging, natural "
           "transfer collapsing) are stated per row.",
      technique="complete enumeration of a finite configuration space (factory x operand choice x optional parts) on the implementation",
      engine="zoo", design="3/C02")

check("C09",
      passes=[dict(name="C09", src=["harness/C09.cpp"] + ENV, shared=ZOO, deps=ZOO_DEPS, variant="fast", shards={"quick": 12, "thorough": 16})],
      rule="(1) every factory row x 12 operand rotations (each under one of four heap-address personalities) x type supplied / not supplied against the row's type rule: fixed "
           "(void, bool, typename, class/union/enum/namespace, decltype(nullptr)), given, absent (logic_error), borrowed (same node as the "
           "designated sub-node's type, or both refuse with logic_error), and type() of every node re-read after the table was rebuilt "
           "with all 11 other rotations on the same Lexicon; (2) EVERY addition sequence of length <= 5 (quick) / <= 7 "
           "(thorough) over 3 element types for heterogeneous scopes (3 declaration kinds), parameter lists, expression lists, "
           "enumerations, base lists -- and parameter lists whose parameters share a name (unnamed parameters): the Product obtained "
           "BEFORE the additions has exactly the current elements' types after each one and every addition is a parameter of its own "
           "with the type given; (3) every ordered pair and triple of function types from 3 signatures x {plain, C linkage, fastcall} "
           "declared under one name: each declaration (and its id-expression) reports exactly the type it was given.",
      text="Complete enumeration of the factory table against per-row type rules, plus all addition sequences up to the "
           "bound on the real growing containers.",
      note="Exception equivalence: for borrowed types 'both sides refuse with logic_error' counts as agreement.",
      technique="complete enumeration of a finite configuration space plus exhaustive enumeration of addition sequences up to a bound, on the implementation",
      engine="zoo", design="3/C09")

check("C14",
      passes=[dict(name="C14", src=["harness/C14.cpp"], shared=ZOO, deps=ZOO_DEPS, variant="asan", shards={"quick": 8, "thorough": 16}),
              # the same enumeration without the sanitizers: ASan's quarantine keeps freed blocks from being handed out again, so anything that
              # depends on a new container landing on the address of a dead one (C14-K) can only show with the plain allocator
              dict(name="C14plain", src=["harness/C14.cpp"], shared=ZOO, deps=ZOO_DEPS, variant="fast", shards={"quick": 8, "thorough": 16})],
      rule="under ASan+UBSan (-fno-sanitize-recover), and once more with the plain allocator (freed addresses are reused at once): every entry of the factory table x {as built, after its row set its links, "
           "after the table was built twice on the same Lexicon} x EVERY accessor of its interface (primitives, virtual extras, and the "
           "common accessors of Expr/Classic/Type/Directive/Stmt/Decl), 4 (quick) / 12 (thorough) operand rotations; for 45 kinds with "
           "settable links ALL subsets of links set (incl. links to untyped nodes), each on a fresh node; every Sequence reached through "
           "an accessor is walked four ways (++it, *it++, --it and it-- from end()) and indexed at 0..size()+2, SIZE_MAX, SIZE_MAX/2, 2^32+size(); util::string::operator[]; "
           "EVERY history of <= 4 (5) operations, from the empty container and from one with two members, over {add a member, read position 0 / last / middle, read position size() and size()+1 (refused), "
           "iterate} on 11 kinds of growing sequence (parameters, bases, handlers, pragma tokens, captures, using-designators, enumerators, "
           "expression list, scope members, a redeclaration set, block body) against a vector of the addresses the additions returned. Oracle: "
           "each call returns or throws something derived from std::logic_error; iteration visits exactly size() elements and agrees "
           "with position(i). distinct_nontrivial = distinct (interface, fingerprint) outcomes.",
      text="Complete enumeration of the accessor x state space on factory-built nodes with sanitizers as the oracle for "
           "undefined behaviour.",
      note="Only nodes produced by the factories are used (a default-constructed Iterator, a ref_sequence(n) of nulls or a null "
           "pushed by the client are outside the quantifier). UB invisible to ASan/UBSan is not detected.",
      technique="complete enumeration of a finite accessor x partial-state space on the implementation under ASan/UBSan",
      engine="zoo", design="3/C14", deadline={"quick": 200, "thorough": 1500})

check("C19",
      passes=[dict(name="C19", src=["harness/C19.cpp"] + ENV, variant="fast", shards={"quick": 16, "thorough": 16}),
              dict(name="C19asan", src=["harness/C19.cpp"] + ENV, variant="asan", shards={"quick": 16, "thorough": 16},
                   args={"quick": ["--asan"], "thorough": ["--asan"]})],
      rule="EVERY ordered history of <= 3 (quick) / <= 4 (thorough) operations over a 29-operation alphabet with at least one "
           "operation per table / farm / list family (string pool incl. pool roll-over and oversize words, identifiers, other names, "
           "pointer/reference/array, qualified, product/sum, function/forall/ptr-to-member/tor, as-type/decltype/auto, transfers, "
           "literals/template-ids, symbols, expression farms, declaration + redeclaration, function + templates, class, enum with 70 "
           "enumerators, namespaces, blocks with handlers and every statement kind, lambda/closure/requires/where, directives, "
           "declarator forms, sub-regions, module units, substitutions, reading every unit's links, one-sided bulk insertions, empty warehouses, printing) on a fresh Lexicon + units, destroyed in language "
           "order; oracle = exact accounting by the replaced operator new/delete: live blocks AND bytes after destruction equal the "
           "counts before construction and no delete of a non-live pointer (an imbalance must reproduce on replay); plus 29 chains of "
           "50 Lexicons with overlapping lifetimes; the same histories to depth 2 (3) under ASan+UBSan for stale accesses; one operation asks "
           "seven kinds of sequence for the elements at size(), size()+1, size()+7: a reference instead of a refusal is an access outside live objects. "
           "Size sweep: for EVERY n <= 150 (600) a Lexicon holding exactly n members of every kind (declared names and their redeclarations, fields, "
           "warehouse products and sums, literals, pointer and qualified types, parameters, enumerators, handlers, expression-list members, sub-regions) is built and destroyed: balance zero. "
           "distinct_nontrivial = ordered histories of >= 2 operations.",
      text="Every operation history up to the bound is executed on the real Lexicon and destroyed; allocation balance is "
           "decided by exact accounting, stale access by sanitizers on every explored execution.",
      note="One-time allocations of the C++ runtime are discounted by a warm-up execution and by requiring an imbalance to "
           "reproduce on replay. LeakSanitizer is not the oracle.",
      technique="exhaustive enumeration of operation histories up to a depth bound on the implementation, exact allocation "
                "accounting as the oracle in every final state",
      engine="explore", design="3/C19", deadline={"quick": 150, "thorough": 1500})

check("C18",
      passes=[dict(name="C18", src=["harness/C18.cpp"], shared=ZOO, deps=ZOO_DEPS, variant="fast", shards={"quick": 16, "thorough": 16})],
      rule="(a) every expression node of the zoo (every factory row + the implementation classes no factory returns; 1 (quick) / 4 "
           "(thorough) operand rotations) offered to xpr_expr, xpr_stmt, xpr_decl and, for types, xpr_type -- each case in a forked "
           "child with a 1 MiB stack, 5 s CPU and 1 MiB output budget, outcome classified by the parent; (b) literals spelled by each "
           "of the 256 single bytes, 225 ordered pairs and 45 mixed words from {0,1,2,3,7,8,9,10,13,27,\\,\",a,0x80,0xff}, bare / as "
           "operand / as statement; (c) 5 delimiters x 5 contents x 3 contexts; (d) EVERY statement tree of depth <= 3 over 18 forms "
           "(86190 trees, from initial indentation 0 and 6; the 168 trees of depth <= 2 also from 31, 64 and 255), plus in thorough every unary form over every depth-3 tree and every "
           "binary form pairing a depth-3 tree with a leaf; (e) 11 kinds of complete declarations (var, field, bit-field, alias, class with "
           "bases, union, enum, namespace, function with body and handlers, template, nested class) x 0..3 members x 4 flavours, through "
           "xpr_decl, xpr_stmt and xpr_expr from initial indentation 0 and 6. Oracle per case: outcome is completion or std::logic_error (never SIGSEGV, "
           "timeout, runaway output or another exception); stream flags/fill/width/precision unchanged; a nesting level, a position "
           "and a file/line/column written afterwards through the same printer read ' 10 9 ' and 'F8:64:100'; no byte < 0x20 except "
           "newline (nor 0x7f) that is not in a spelling of the graph; Printer::indent() restored after each completed top-level "
           "statement or declaration; the same printer asked a second time ends the same way with the same text. distinct_nontrivial = statement trees printed to completion.",
      text="Every node kind x entry point, every literal byte, every delimiter and every statement nesting up to the bound is "
           "printed by the real printer; fatal outcomes are observed in sandbox children.",
      note="A construct the printer refuses with std::logic_error is admissible. Stack exhaustion within 1 MiB is taken as "
           "unbounded recursion (the deepest legitimate print of the bounded fragment needs < 40 KiB).",
      technique="complete enumeration of node kind x printer entry point and of statement trees up to a depth bound on the "
                "implementation, sandboxed executions with outcome classification",
      engine="zoo", design="3/C18", deadline={"quick": 200, "thorough": 1500})

check("C05",
      passes=[dict(name="C05", src=["harness/C05.cpp"] + ENV, shared=ZOO, deps=ZOO_DEPS, variant="fast", shards={"quick": 16, "thorough": 16}),
              dict(name="C05asan", src=["harness/C05.cpp"] + ENV, shared=ZOO, deps=ZOO_DEPS, variant="asan", shards={"quick": 16, "thorough": 16},
                   args={"quick": ["--asan"], "thorough": ["--asan"]})],
      rule="(A) every entry of the factory table + internals is fingerprinted through every accessor of its interface (nodes named by "
           "creation index), then the table is rebuilt 11 times with every other operand rotation in units of their own on the same "
           "Lexicon and every fingerprint is recomputed: byte-identical; generative rows pairwise distinct (4 quick / 12 thorough base "
           "rotations). (B) EVERY ordered history of <= 4 (quick) / <= 5 (thorough) operations (one less under ASan) over a 24-operation alphabet, one per "
           "storage mechanism (farm, tree, string pool, unified literal, symbol keyed on name+type, label of the same name, enumerators, parameters, bases, "
           "handlers, module units, pragma tokens, captures, using-designators, scope members, redeclaration, expression-list members, "
           "warehouse product with the warehouse destroyed and its storage scribbled, sub-region, class fields, block statements, "
           "binding names; another Lexicon building, looking up, substituting and printing a graph of its own and dying; the same and staying alive): after EVERY step every node returned so far is re-read through every accessor -- identical, except that "
           "a container the step added to may only have grown at its end (model vectors of member addresses), and generative "
           "constructors return addresses distinct from all live nodes. (C) 1100 (5000) additions per member-sequence kind interleaved "
           "with two other factories, re-observed at every 2^k-1, 2^k, 2^k+1; 70000 words through the string pool; 20000 (100000) tree "
           "keys. All of it again under ASan+UBSan with smaller bounds. distinct_nontrivial = histories repeating an operation.",
      text="Every operation history up to the bound on the real factories, with every earlier node re-observed after every "
           "step against its recorded fingerprint; sanitizers catch references into relocated or freed storage.",
      note="A fingerprint names nodes by creation index, never by address. Which snapshots a step may extend is stated per "
           "operation; all others must be byte-identical.",
      technique="exhaustive enumeration of operation histories up to a depth bound on the implementation, whole-state re-observation "
                "after every step against recorded fingerprints",
      engine="explore", design="3/C05", deadline={"quick": 200, "thorough": 1500})

check("C17",
      passes=[dict(name="C17", src=["harness/C17.cpp"] + ENV, shared=ZOO, deps=ZOO_DEPS, variant="fast", shards={"quick": 16, "thorough": 16})],
      rule="programs of the printable fragment from a typed catalogue: 75 expression forms x operand pool {literal, id-expression, "
           "compound}; every statement tree of depth <= 2 (quick, 168) / <= 3 (thorough, 86190) over 18 statement forms inside a "
           "function body; 8 declaration kinds x 12 type shapes x 3 initializers; class/union/enum/namespace with 0..3 members; all "
           "6^3 three-declaration scopes. Each program is built under EVERY history of the set {plain; ascending / descending / "
           "alternating heap addresses; 1000 unrelated nodes first; independent sub-terms built in reverse; reverse+descending+noise; "
           "unrelated factory calls -- including requests for the very names, labels, literals and types the program uses -- injected "
           "before construction step k for EVERY k; the unit printed (text discarded) before step k for EVERY k, and before all steps; "
           "thorough: noise before every PAIR of steps}. Oracle: printed bytes identical across all "
           "histories; three further fresh printers on the same graph (two of them constructed in storage filled with ones) reproduce them; fingerprint of every node the program built "
           "unchanged by printing; with print_locations on the text is the off-text with only the F<file>:<line>[:<col>] tokens of "
           "located nodes inserted (each shows, none invented), off => none; every program also with all located nodes on ONE line of one file "
           "(columns differ) and with all at ONE identical position: each token appears at least as often as nodes carry it. distinct_nontrivial = programs printed to completion.",
      text="Every program of the bounded fragment x every construction history of the deviation-bounded set is built on the "
           "real factories and printed by the real printer; outputs are compared byte for byte.",
      note="Programs the printer refuses with std::logic_error under the plain history are counted, not compared (C18 decides "
           "them); they must be refused under every history as well.",
      technique="exhaustive enumeration of programs up to a depth bound x environment deviations (address orders, injected "
                "unrelated operations at every step, reversed sub-term order) on the implementation, differential oracle",
      engine="explore", design="3/C17", deadline={"quick": 200, "thorough": 1500})

check("C20",
      passes=[dict(name="C20", src=["harness/C20.cpp"] + ENV, variant="fast", shards={"quick": 16, "thorough": 16}),
              dict(name="C20tsan", src=["harness/C20.cpp"], variant="tsan", flags=["-DC20_TSAN"], shards={"quick": 5, "thorough": 10})],
      rule="(a) serialising scheduler over hooked scheduling points (every operator new, operator delete, std::_Hash_bytes, every "
           "stream write, operation boundaries, thread start/end, rendezvous): for EVERY assignment of 5 construction programs "
           "(declare+print with locations, type towers, interning incl. reserved words, literals/labels/symbols/linkages, class+enum+"
           "print) to 2 threads, in two shapes (isolated: Lexicons alive until all are done; lifecycle: each thread creates, uses and "
           "destroys two Lexicons in a row), EVERY schedule with <= 2 preemptions (thorough: <= 3 for the isolated shape); to 3 threads: 35 "
           "assignments up to permutation with <= 1 preemption (quick) / all 125 with <= 2 (thorough). Oracle per schedule: each "
           "thread's trace byte-identical to the same program run alone (every program first records the unit's global namespace, its name, region and scope, and whether the name is its own Lexicon's unnamed identifier); nodes handed out by two live Lexicons intersect only in the "
           "process-wide constants; per-thread allocation balance equal to that of a fresh thread running the same program alone (a block allocated by one thread and released by another is a "
           "violation; something a thread keeps for itself until it ends is not); replayed twice before report. also two (three) Lexicons alive on ONE thread running the same program. "
           "(b) the same bodies free-running on 2,3,4,8,16 threads under ThreadSanitizer, each process starting COLD with 8 threads at "
           "once (lazily built process-wide state is raced for there): no report. distinct_nontrivial = thread/program configurations explored.",
      text="All schedules up to a preemption bound of the real library under a controlled scheduler, plus a free-running "
           "ThreadSanitizer pass of the same thread bodies for unsynchronised plain accesses.",
      note="Preemption is explored at allocation / hash / stream-write / operation granularity only; plain accesses between two "
           "such points are left to the ThreadSanitizer pass (dynamic: it sees the accesses the bodies execute). Memory-model "
           "effects are out of scope.",
      technique="stateless exploration of all thread schedules up to a preemption bound (iterative context bounding) on the "
                "implementation under a serialising scheduler; separate free-running ThreadSanitizer pass",
      engine="sched", design="3/C20", deadline={"quick": 200, "thorough": 2400})

# Start from a non-initial process state too (engine/prelude.hpp): every pass of every check is repeated, with the quick bounds
# in both tiers, in a process in which a decoy Lexicon has already lived and died and a second one is still alive -- both having
# run a fixed program restricted to the kinds of operation the property is about, asking for the spellings the harnesses use.
DECOY_RULE = (" DECOYS: every pass above is run again (quick bounds in both tiers) in a process where one decoy Lexicon ran a fixed "
              "program of the kinds of operation this property quantifies over (engine/prelude.hpp, sections_for) and was destroyed, and "
              "a second one ran it and stays alive, before the exploration starts; same oracle, so anything the library keeps outside a "
              "Lexicon is no longer in its initial state.")
for _pid, _spec in CHECKS.items():
    if _pid == "C08":        # the tree utility on its own: no Lexicon is involved, a decoy Lexicon has no business there
        continue
    _extra = []
    for _p in _spec["passes"]:
        _q = dict(_p)
        _q.update(name=_p["name"] + "+decoys", build_as=_p["name"], run_tier="quick", env=dict(_p.get("env") or {}, VERIF_PRELUDE="1"))
        _extra.append(_q)
    _spec["passes"] = _spec["passes"] + _extra
    _spec["rule"] += DECOY_RULE

# Properties not claimed (with the reason that goes to MANIFEST.not_applicable).
NOT_CLAIMED = {}
