"""Table of checks: one entry per property of properties.jsonl that is claimed.  bin/check and bin/gen-manifest
both read it, so MANIFEST.json cannot drift from what the driver runs."""

ENV = ["engine/envctl.cpp"]

ASSUME_COMMON = [
    "bounded: only histories/inputs inside the stated bounds are covered (small-scope hypothesis)",
    "the C++ toolchain (g++ 12 / clang 14, libstdc++) and, where used, ASan/UBSan/TSan are trusted",
]

CHECKS = {}


def check(pid, passes, rule, text, note, technique, engine, assumptions=(), deadline=None, design="3"):
    CHECKS[pid] = dict(passes=passes, rule=rule, text=text, note=note, technique=technique, engine=engine,
                       assumptions=ASSUME_COMMON + list(assumptions), deadline=deadline or {}, design=design)


check("C08",
      passes=[dict(name="C08", src=["harness/C08.cpp"] + ENV, variant="fast", lib=False,
                   shards={"quick": 16, "thorough": 16})],
      rule="every permutation of n distinct keys (n<=8 quick, n<=10 thorough) and every duplicate-bearing sequence "
           "(len<=7 over 4 keys, len<=6 over 5 keys; thorough len<=8) is inserted into both tree flavours under three "
           "comparators; after EVERY insertion: BST order, black root, no red-red, equal black height, parent links, "
           "height<=2log2(n+1), size, every inserted key found at its node, every gap/end key absent, equal key returns "
           "the existing element without changing shape; then adversarial long orders up to 2*10^4 (2*10^5 thorough) keys. "
           "distinct_nontrivial = distinct (shape,colouring) pairs reached.",
      text="Bounded exhaustive exploration of the real rb_tree templates: all insertion orders up to the bound, "
           "validated after every step against the red-black definition and a boring presence table.",
      note="Trusts that harness classes derived from the protected core see the same root/count the library uses. "
           "Comparators used are total orders (the lexicographic one is itself checked on all 40^3 triples).",
      technique="explicit enumeration of all insertion sequences up to a bound on the implementation, invariant "
                "checked in every reached state",
      engine="rbtree", design="3/C08")

# Properties not claimed (with the reason that goes to MANIFEST.not_applicable).
NOT_CLAIMED = {}
