// C15 — derived interface operations agree with the primitives they are defined from.
// A small state space closed completely: every node kind that has a derived operation, in the states empty /
// singleton / several members (handlers: 0,1,2), and ALL pairs of values from pools of logograms, linkages, calling
// conventions, transfers, basic specifiers and basic qualifiers for the equalities.
#include <algorithm>
#include <string>
#include <vector>

#include <ipr/impl>

#include "report.hpp"

namespace {
   vf::Report rep;
   vf::Options opt;
   bool verbose = false;
   int state_id = 0;
   std::string state_text;

   void chk(bool ok, const std::string& key, const std::string& what)
   {
      rep.count("transitions");
      if (ok) return;
      rep.violation("C15:" + key, state_id, what + " [" + state_text + "]", vf::JObj{}.str("pass", "C15").raw("ops", vf::jarr(std::vector<long long>{ state_id })).str("state", state_text).done());
      if (verbose) std::printf("  VIOLATION C15:%s: %s [%s]\n", key.c_str(), what.c_str(), state_text.c_str());
   }

   void state(const std::string& s)
   {
      ++state_id;
      state_text = s;
      rep.count("states");
      rep.count("distinct_nontrivial");
   }

   // Sequence<T>: empty <=> size()==0; begin/end/position consistent with size; iteration visits size() elements in
   // positional order; ++/-- are inverse.
   template<class T>
   void sequence_laws(const ipr::Sequence<T>& s, const std::string& impl)
   {
      const auto n = s.size();
      chk(s.empty() == (n == 0), "sequence:empty:" + impl, "empty() disagrees with size()==0");
      chk(s.begin() == s.position(0), "sequence:begin:" + impl, "begin() is not position(0)");
      chk(s.end() == s.position(n), "sequence:end:" + impl, "end() is not position(size())");
      chk((s.begin() == s.end()) == (n == 0), "sequence:begin-end:" + impl, "begin()==end() disagrees with size()==0");
      std::size_t k = 0;
      bool order = true;
      for (auto it = s.begin(); it != s.end(); ++it, ++k) {
         if (k > n + 2) break;
         if (&*it != &*s.position(k)) order = false;
         if (it.operator->() != &*it) order = false;
      }
      chk(k == n, "sequence:iteration-count:" + impl, "iteration visits " + std::to_string(k) + " elements, size() is " + std::to_string(n));
      chk(order, "sequence:iteration-order:" + impl, "iteration does not agree with positional access");
      if (n > 0) {
         auto it = s.begin();
         auto j = it++;
         chk(j == s.begin() and it == s.position(1), "sequence:post-increment:" + impl, "it++ is wrong");
         auto b = it--;
         chk(b == s.position(1) and it == s.begin(), "sequence:post-decrement:" + impl, "it-- is wrong");
         auto e = s.end();
         --e;
         chk(e == s.position(n - 1), "sequence:pre-decrement:" + impl, "--end() is not the last position");
         chk(s.begin() != s.end(), "sequence:inequality:" + impl, "begin() != end() is false on a non-empty sequence");
      }
      // every sequence of <= 5 iterator operations {*it, ++it, it++, --it, it--} from every start position 0..min(n,3),
      // against a plain index: the iterator always equals position(index) and dereferences to the element at that index
      const std::size_t starts = std::min<std::size_t>(n, 3);
      for (std::size_t start = 0; start <= starts; ++start)
         for (int len = 1; len <= 5; ++len) {
            int total = 1;
            for (int i = 0; i < len; ++i) total *= 5;
            for (int code = 0; code < total; ++code) {
               auto it = s.position(start);
               std::size_t idx = start;
               bool ok = true, admissible = true;
               int c = code;
               for (int i = 0; i < len and ok and admissible; ++i, c /= 5) {
                  switch (c % 5) {
                  case 0: if (idx < n) ok = &*it == &*s.position(idx) and it.operator->() == &*s.position(idx); break;
                  case 1: if (idx + 1 > n) admissible = false; else { auto& r = ++it; ++idx; ok = r == s.position(idx); } break;
                  case 2: if (idx + 1 > n) admissible = false; else { auto old = it++; ok = old == s.position(idx); ++idx; } break;
                  case 3: if (idx == 0) admissible = false; else { auto& r = --it; --idx; ok = r == s.position(idx); } break;
                  case 4: if (idx == 0) admissible = false; else { auto old = it--; ok = old == s.position(idx); --idx; } break;
                  }
                  if (ok and admissible) ok = it == s.position(idx) and (idx >= n or &*it == &*s.position(idx));
               }
               if (not ok) { chk(false, "sequence:iterator-walk:" + impl, "after a sequence of iterator operations (code " + std::to_string(code) + " of length " + std::to_string(len) + " from position " + std::to_string(start) + ") the iterator does not designate the element at its position"); return; }
            }
         }
   }

   template<class P>
   void product_like(const P& p, const std::string& what)
   {
      chk(p.size() == p.elements().size(), what + ":size", "size() differs from elements().size()");
      chk(&p.elements() == &p.operand(), what + ":elements", "elements() is not operand()");
      for (std::size_t i = 0; i < p.elements().size(); ++i)
         chk(&p[i] == &*p.elements().position(i), what + ":index", "operator[](i) differs from *elements().position(i)");
      sequence_laws(p.elements(), what + "-elements");
   }

   void scope_laws(const ipr::Scope& s, const std::string& impl)
   {
      chk(s.size() == s.elements().size(), "scope:size:" + impl, "Scope::size() differs from elements().size()");
      chk(s.begin() == s.elements().begin() and s.end() == s.elements().end(), "scope:begin-end:" + impl, "Scope::begin()/end() differ from those of elements()");
      sequence_laws(s.elements(), "scope-elements-" + impl);
   }

   template<class U>
   void udt_laws(const U& u, const std::string& what)
   {
      chk(&u.scope() == &u.region().bindings(), what + ":scope", "scope() is not region().bindings()");
      scope_laws(u.scope(), what);
   }

   template<class U>
   void decl_udt_laws(const U& u, const std::string& what)
   {
      udt_laws(u, what);
      chk(&u.members() == &u.scope().elements(), what + ":members", "members() is not scope().elements()");
      sequence_laws(u.members(), what + "-members");
   }

   void block_laws(const ipr::Block& b, const std::string& what)
   {
      chk(&b.body() == &b.region().body(), what + ":body", "Block::body() is not region().body()");
      chk(b.try_block() == (b.handlers().size() > 0), what + ":try_block", std::string("try_block() is ") + (b.try_block() ? "true" : "false") + " with " + std::to_string(b.handlers().size()) + " handlers");
      sequence_laws(b.handlers(), what + "-handlers");
      sequence_laws(b.body(), what + "-body");
   }

   template<class V, class Eq>
   void equivalence(const std::vector<std::pair<V, std::string>>& pool, const std::string& what, Eq eq, Eq ne)
   {
      const std::size_t n = pool.size();
      for (std::size_t i = 0; i < n; ++i) {
         chk(eq(pool[i].first, pool[i].first), what + ":reflexive", "a value is not equal to itself (" + pool[i].second + ")");
         for (std::size_t j = 0; j < n; ++j) {
            bool e = eq(pool[i].first, pool[j].first);
            chk(e == (pool[i].second == pool[j].second), what + ":iff-spelling", "== is " + std::string(e ? "true" : "false") + " for '" + pool[i].second + "' and '" + pool[j].second + "'");
            chk(e == eq(pool[j].first, pool[i].first), what + ":symmetric", "== is not symmetric for '" + pool[i].second + "' and '" + pool[j].second + "'");
            chk(ne(pool[i].first, pool[j].first) == not e, what + ":not-equal", "!= is not the negation of == for '" + pool[i].second + "' and '" + pool[j].second + "'");
            for (std::size_t k = 0; k < n; ++k)
               if (e and eq(pool[j].first, pool[k].first)) chk(eq(pool[i].first, pool[k].first), what + ":transitive", "== is not transitive");
         }
      }
      rep.count("pairs", (long long) (n * n));
   }

   void run()
   {
      ipr::impl::Lexicon lex;
      ipr::impl::Translation_unit unit{ lex };
      const ipr::Lexicon& ilex = lex;
      auto& region = *unit.global_region();
      auto name = [&](int i) -> const ipr::Name& { return lex.get_identifier(std::u8string(1, char8_t('a' + i))); };
      const ipr::Type* ty[3] = { &ilex.int_type(), &ilex.char_type(), &lex.get_pointer(ilex.int_type()) };

      for (int n : { 0, 1, 3 }) {
         const std::string N = std::to_string(n) + " members";
         // products and sums (warehouse-built: ref_sequence behind them)
         ipr::impl::Warehouse<ipr::Type> w;
         for (int i = 0; i < n; ++i) w.push_back(*ty[i]);
         state("product of " + N);
         product_like(lex.get_product(w), "product");
         state("sum of " + N);
         product_like(lex.get_sum(w), "sum");
         // expression list, and its Product type (typed_sequence over ref_sequence)
         state("expression list of " + N);
         auto* xl = lex.make_expr_list();
         for (int i = 0; i < n; ++i) xl->push_back(lex.make_literal(*ty[i], u8"0"));
         const ipr::Expr_list& ixl = *xl;
         chk(ixl.size() == ixl.elements().size(), "expr-list:size", "Expr_list::size() differs from elements().size()");
         chk(&ixl.elements() == &ixl.operand(), "expr-list:elements", "elements() is not operand()");
         sequence_laws(ixl.elements(), "ref_sequence");
         if (auto p = ipr::util::view<ipr::Product>(ixl.type())) product_like(*p, "expr-list-type");
         else chk(false, "expr-list-type:not-product", "the type of an expression list is not a Product");
         // heterogeneous scope inside user-defined types
         state("class with " + N);
         auto* c = lex.make_class(region);
         for (int i = 0; i < n; ++i) c->declare_field(name(i), *ty[i]);
         for (int i = 0; i < n; ++i) c->declare_base(*ty[i]);
         decl_udt_laws<ipr::Class>(*c, "class");
         sequence_laws(static_cast<const ipr::Class&>(*c).bases(), "bases");
         if (auto p = ipr::util::view<ipr::Product>(c->region().bindings().type())) product_like(*p, "scope-type");
         else chk(false, "scope-type:not-product", "the type of a class scope is not a Product");
         state("union with " + N);
         auto* u = lex.make_union(region);
         for (int i = 0; i < n; ++i) u->declare_var(name(i), *ty[i]);
         decl_udt_laws<ipr::Union>(*u, "union");
         state("namespace with " + N);
         auto* ns = lex.make_namespace(region);
         for (int i = 0; i < n; ++i) ns->declare_var(name(i), *ty[i]);
         for (int i = 0; i < n; ++i) ns->declare_var(name(i), *ty[i]);            // redeclarations: decl_set grows
         decl_udt_laws<ipr::Namespace>(*ns, "namespace");
         for (auto& d : ns->region().bindings().elements()) sequence_laws(d.decl_set(), "decl_set");
         state("enum with " + N);
         auto* en = lex.make_enum(region, ipr::Enum::Kind::Scoped);
         for (int i = 0; i < n; ++i) en->add_member(name(i));
         udt_laws<ipr::Enum>(*en, "enum");
         {
            const ipr::Enum& ie = *en;
            chk(ie.members().size() == ie.scope().elements().size(), "enum:members-size", "members() and scope().elements() differ in size");
            std::size_t i = 0;
            for (auto& m : ie.members()) { chk(static_cast<const ipr::Decl*>(&m) == &*ie.scope().elements().position(i), "enum:members", "members() differs from scope().elements()"); ++i; }
            sequence_laws(ie.members(), "obj_sequence");
            if (n > 0) sequence_laws(ie.members().begin()->decl_set(), "singleton_ref");
         }
         state("closure with " + N);
         auto* cl = lex.make_closure(region);
         auto* v = region.declare_var(name(7), *ty[0]);
         for (int i = 0; i < n; ++i) cl->captures.push_back(*v, ipr::Binding_mode(i % 3));
         udt_laws<ipr::Closure>(*cl, "closure");
         sequence_laws(static_cast<const ipr::Closure&>(*cl).members(), "obj_list");
         // parameter list
         state("mapping with " + N);
         auto* map = lex.make_mapping(region, ipr::Mapping_level{ 1 });
         for (int i = 0; i < n; ++i) map->param(name(i), *ty[i]);
         const ipr::Parameter_list& pl = map->parameters();
         chk(pl.size() == pl.elements().size(), "parameter-list:size", "Parameter_list::size() differs from elements().size()");
         chk(pl.begin() == pl.elements().begin() and pl.end() == pl.elements().end(), "parameter-list:begin-end", "Parameter_list::begin()/end() differ from those of elements()");
         sequence_laws(pl.elements(), "parameter-list");
         scope_laws(pl.region().bindings(), "homogeneous_scope");
         sequence_laws(pl.region().body(), "homogeneous_scope-as-body");
         product_like(pl.type(), "parameter-list-type");
         // template over that mapping
         auto& fa = lex.get_forall(pl.type(), ilex.class_type());
         auto* tmpl = region.declare_primary_template(lex.get_identifier(std::u8string(u8"T") + char8_t('0' + n)), fa);
         tmpl->init = map;
         map->body = lex.make_literal(*ty[0], u8"1");
         const ipr::Template& it = *tmpl;
         chk(&it.parameters() == &it.mapping().parameters(), "template:parameters", "Template::parameters() is not mapping().parameters()");
         chk(&it.result() == &it.mapping().result(), "template:result", "Template::result() is not mapping().result()");
         // the same template declared again with a mapping of its own, and a secondary template of the same name:
         // parameters()/result() of EACH declaration are those of ITS mapping (both sides refusing counts as agreement)
         {
            auto same_or_both_refuse = [&](auto derived, auto primitive, const char* key, const char* what) {
               const void* a = nullptr; const void* b = nullptr; bool ra = false, rb = false;
               try { a = derived(); } catch (const std::logic_error&) { ra = true; }
               try { b = primitive(); } catch (const std::logic_error&) { rb = true; }
               chk(ra == rb and a == b, key, what);
            };
            auto* map2 = lex.make_mapping(region, ipr::Mapping_level{ 1 });
            for (int k = 0; k < n; ++k) map2->param(name(k + 3), *ty[k]);
            map2->body = lex.make_literal(*ty[0], u8"2");
            auto* again = region.declare_primary_template(tmpl->name(), fa);
            again->init = map2;
            auto* sec_map = lex.make_mapping(region, ipr::Mapping_level{ 1 });
            sec_map->param(name(6), *ty[0]);
            sec_map->body = lex.make_literal(*ty[0], u8"3");
            auto* sec = region.declare_secondary_template(tmpl->name(), lex.get_forall(sec_map->parameters().type(), ilex.union_type()));
            sec->init = sec_map;
            auto* bare = region.declare_secondary_template(name(8), lex.get_forall(sec_map->parameters().type(), ilex.enum_type()));      // no mapping yet
            int which = 0;
            for (const ipr::Template* t : { static_cast<const ipr::Template*>(tmpl), static_cast<const ipr::Template*>(again), static_cast<const ipr::Template*>(sec), static_cast<const ipr::Template*>(bare) }) {
               state(std::string("template declaration #") + std::to_string(which++) + " (first / redeclared / secondary / secondary without mapping) over a mapping with " + N);
               same_or_both_refuse([&] { return static_cast<const void*>(&t->parameters()); }, [&] { return static_cast<const void*>(&t->mapping().parameters()); }, "template:parameters", "Template::parameters() is not mapping().parameters()");
               same_or_both_refuse([&] { return static_cast<const void*>(&t->result()); }, [&] { return static_cast<const void*>(&t->mapping().result()); }, "template:result", "Template::result() is not mapping().result()");
            }
            state("mapping with " + N);
         }
         // parameters with / without initializer
         int i = 0;
         for (auto& p : pl.elements()) {
            auto* ip = const_cast<ipr::impl::Parameter*>(static_cast<const ipr::impl::Parameter*>(&p));
            if (i % 2 == 0) ip->init = lex.make_literal(*ty[0], u8"9");
            chk(p.default_value().is_valid() == p.initializer().is_valid(), "parameter:default_value", "default_value() and initializer() disagree on presence");
            if (p.initializer().is_valid()) chk(&p.default_value().get() == &p.initializer().get(), "parameter:default_value", "default_value() is not initializer()");
            ++i;
         }
      }
      // blocks with 0, 1, 2 handlers (impl::Block) and the handler body block (handler_block)
      for (int nh : { 0, 1, 2 }) {
         state("block with " + std::to_string(nh) + " handlers");
         auto* b = lex.make_block(region);
         for (int k = 0; k < nh + 1; ++k) b->add_stmt(*lex.make_expr_stmt(*lex.make_literal(ilex.int_type(), u8"1")));
         for (int k = 0; k < nh; ++k) {
            auto* h = b->new_handler(name(k), ilex.int_type());
            state("handler body block #" + std::to_string(k) + " of a block with " + std::to_string(nh) + " handlers");
            block_laws(static_cast<const ipr::Handler&>(*h).body(), "handler-block");
            state("block with " + std::to_string(nh) + " handlers");
         }
         block_laws(*b, "block");
      }
      // linkage vs transfer
      {
         state("types with natural and non-natural transfer");
         auto& xc = lex.get_transfer_from_linkage(ilex.c_linkage());
         auto& xj = lex.get_transfer(lex.get_linkage(u8"Java"), lex.get_calling_convention(u8"fastcall"));
         ipr::impl::Warehouse<ipr::Type> w;
         w.push_back(*ty[0]);
         auto& p = lex.get_product(w);
         const ipr::Type* types[] = { ty[0], ty[2], &lex.get_function(p, *ty[0]), &lex.get_function(p, *ty[0], xc), &lex.get_function(p, *ty[1], xj),
                                      &lex.get_as_type(*lex.make_id_expr(name(3)), xc), &lex.get_as_type(*lex.make_id_expr(name(4)), xj), lex.make_class(region) };
         for (auto t : types) chk(&t->linkage() == &t->transfer().linkage(), "type:linkage", "Type::linkage() is not transfer().linkage()");
         chk(&types[3]->linkage() == &ilex.c_linkage(), "type:linkage", "a function type with C transfer does not report C linkage");
         chk(types[4]->linkage() == lex.get_linkage(u8"Java"), "type:linkage", "a function type with Java transfer does not report Java linkage");
      }
      // equalities: every pair of a pool in which some values are spelled alike but obtained through different routes
      {
         state("equality of logograms");
         std::vector<std::pair<const ipr::Logogram*, std::string>> lg;
         for (auto w : { u8"", u8"static", u8"foo", u8"bar", u8"C" }) {
            lg.push_back({ &lex.get_logogram(lex.get_string(w)), reinterpret_cast<const char*>(w) });
            lg.push_back({ &lex.get_logogram(lex.get_string(std::u8string(w))), reinterpret_cast<const char*>(w) });
         }
         lg.push_back({ &ilex.c_linkage().language(), "C" });
         lg.push_back({ &ilex.decompose(ilex.static_specifier()).front().logogram(), "static" });
         lg.push_back({ &ipr::impl::cxx_transfer().convention().name(), "" });
         equivalence(lg, "logogram", +[](const ipr::Logogram* const& a, const ipr::Logogram* const& b) { return *a == *b; },
                     +[](const ipr::Logogram* const& a, const ipr::Logogram* const& b) { return *a != *b; });
         state("equality of linkages");
         std::vector<std::pair<const ipr::Linkage*, std::string>> lk = {
            { &ilex.c_linkage(), "C" }, { &ilex.cxx_linkage(), "C++" }, { &lex.get_linkage(u8"C"), "C" }, { &lex.get_linkage(lex.get_string(u8"C++")), "C++" },
            { &lex.get_linkage(u8"Java"), "Java" }, { &lex.get_linkage(lex.get_string(u8"Java")), "Java" }, { &lex.get_linkage(u8""), "" },
            { &ipr::impl::cxx_transfer().linkage(), "C++" }, { &lex.get_transfer_from_linkage(lex.get_linkage(u8"Java")).linkage(), "Java" },
         };
         equivalence(lk, "linkage", +[](const ipr::Linkage* const& a, const ipr::Linkage* const& b) { return *a == *b; },
                     +[](const ipr::Linkage* const& a, const ipr::Linkage* const& b) { return *a != *b; });
         {
            // the same spellings asked for, back to back, by ANOTHER live Lexicon: within each Lexicon equality still holds
            // exactly for equal spellings, whatever route the value came by
            state("equality of linkages / conventions / logograms / transfers while a second Lexicon asks for the same spellings");
            ipr::impl::Lexicon other;
            std::vector<std::pair<const ipr::Linkage*, std::string>> la, lb;
            std::vector<std::pair<const ipr::Calling_convention*, std::string>> ca, cb;
            std::vector<std::pair<const ipr::Logogram*, std::string>> ga, gb;
            std::vector<std::pair<const ipr::Transfer*, std::string>> xa, xb;
            for (auto w : { u8"Java", u8"Ada", u8"C", u8"Java", u8"fastcall", u8"Ada" }) {
               const std::string sp = reinterpret_cast<const char*>(w);
               auto& o1 = other.get_linkage(ipr::util::word_view(w)); auto& m1 = lex.get_linkage(ipr::util::word_view(w));
               auto& m2 = lex.get_linkage(lex.get_string(w)); auto& o2 = other.get_linkage(other.get_string(w));
               la.push_back({ &m1, sp }); la.push_back({ &m2, sp }); lb.push_back({ &o1, sp }); lb.push_back({ &o2, sp });
               auto& oc = other.get_calling_convention(w); auto& mc = lex.get_calling_convention(w); auto& mc2 = lex.get_calling_convention(std::u8string(w));
               ca.push_back({ &mc, sp }); ca.push_back({ &mc2, sp }); cb.push_back({ &oc, sp }); cb.push_back({ &other.get_calling_convention(w), sp });
               auto& og = other.get_logogram(other.get_string(w)); auto& mg = lex.get_logogram(lex.get_string(w));
               ga.push_back({ &mg, sp }); ga.push_back({ &m1.language(), sp }); ga.push_back({ &mc.name(), sp }); gb.push_back({ &og, sp }); gb.push_back({ &o1.language(), sp });
               auto& ox = other.get_transfer(o1, oc); auto& mx = lex.get_transfer(m1, mc); auto& mx2 = lex.get_transfer(m2, mc2);
               xa.push_back({ &mx, sp }); xa.push_back({ &mx2, sp }); xb.push_back({ &ox, sp });
            }
            auto leq = +[](const ipr::Linkage* const& a, const ipr::Linkage* const& b) { return *a == *b; };
            auto lne = +[](const ipr::Linkage* const& a, const ipr::Linkage* const& b) { return *a != *b; };
            equivalence(la, "linkage", leq, lne); equivalence(lb, "linkage", leq, lne);
            auto ceq = +[](const ipr::Calling_convention* const& a, const ipr::Calling_convention* const& b) { return *a == *b; };
            auto cne = +[](const ipr::Calling_convention* const& a, const ipr::Calling_convention* const& b) { return *a != *b; };
            equivalence(ca, "calling-convention", ceq, cne); equivalence(cb, "calling-convention", ceq, cne);
            auto geq = +[](const ipr::Logogram* const& a, const ipr::Logogram* const& b) { return *a == *b; };
            auto gne = +[](const ipr::Logogram* const& a, const ipr::Logogram* const& b) { return *a != *b; };
            equivalence(ga, "logogram", geq, gne); equivalence(gb, "logogram", geq, gne);
            auto xeq = +[](const ipr::Transfer* const& a, const ipr::Transfer* const& b) { return *a == *b; };
            auto xne = +[](const ipr::Transfer* const& a, const ipr::Transfer* const& b) { return *a != *b; };
            equivalence(xa, "transfer", xeq, xne); equivalence(xb, "transfer", xeq, xne);
         }
         state("equality of calling conventions");
         std::vector<std::pair<const ipr::Calling_convention*, std::string>> cc = {
            { &ipr::impl::cxx_transfer().convention(), "" }, { &lex.get_calling_convention(u8""), "" }, { &lex.get_calling_convention(u8"fastcall"), "fastcall" },
            { &lex.get_calling_convention(u8"stdcall"), "stdcall" }, { &lex.get_transfer_from_convention(lex.get_calling_convention(u8"fastcall")).convention(), "fastcall" },
            { &lex.get_transfer_from_linkage(ilex.c_linkage()).convention(), "" },
         };
         equivalence(cc, "calling-convention", +[](const ipr::Calling_convention* const& a, const ipr::Calling_convention* const& b) { return *a == *b; },
                     +[](const ipr::Calling_convention* const& a, const ipr::Calling_convention* const& b) { return *a != *b; });
         state("equality of transfers");
         std::vector<std::pair<const ipr::Transfer*, std::string>> xf = {
            { &ipr::impl::cxx_transfer(), "C++/" }, { &lex.get_transfer(ilex.cxx_linkage(), lex.get_calling_convention(u8"")), "C++/" },
            { &lex.get_transfer_from_linkage(ilex.cxx_linkage()), "C++/" }, { &lex.get_transfer_from_linkage(ilex.c_linkage()), "C/" },
            { &lex.get_transfer(ilex.c_linkage(), lex.get_calling_convention(u8"")), "C/" }, { &lex.get_transfer(ilex.c_linkage(), lex.get_calling_convention(u8"fastcall")), "C/fastcall" },
            { &lex.get_transfer_from_convention(lex.get_calling_convention(u8"fastcall")), "C++/fastcall" },
            { &lex.get_transfer(lex.get_linkage(u8"Java"), lex.get_calling_convention(u8"fastcall")), "Java/fastcall" },
            { &lex.get_transfer(lex.get_linkage(u8"C++"), lex.get_calling_convention(u8"fastcall")), "C++/fastcall" },
         };
         equivalence(xf, "transfer", +[](const ipr::Transfer* const& a, const ipr::Transfer* const& b) { return *a == *b; },
                     +[](const ipr::Transfer* const& a, const ipr::Transfer* const& b) { return *a != *b; });
         for (auto& [x, s] : xf) {
            chk(&x->linkage() == &x->first(), "transfer:linkage", "Transfer::linkage() is not first()");
            chk(&x->convention() == &x->second(), "transfer:convention", "Transfer::convention() is not second()");
         }
         state("equality of basic specifiers and qualifiers");
         std::vector<std::pair<ipr::Basic_specifier, std::string>> bs;
         for (auto w : { u8"static", u8"extern", u8"inline", u8"foo" }) {
            bs.push_back({ ipr::Basic_specifier{ lex.get_logogram(lex.get_string(w)) }, reinterpret_cast<const char*>(w) });
            bs.push_back({ ipr::Basic_specifier{ lex.get_logogram(lex.get_string(std::u8string(w))) }, reinterpret_cast<const char*>(w) });
         }
         bs.push_back({ ilex.decompose(ilex.static_specifier()).front(), "static" });
         bs.push_back({ ilex.decompose(ilex.inline_specifier() | ilex.extern_specifier()).front(), "extern" });
         equivalence(bs, "basic-specifier", +[](const ipr::Basic_specifier& a, const ipr::Basic_specifier& b) { return a == b; },
                     +[](const ipr::Basic_specifier& a, const ipr::Basic_specifier& b) { return a != b; });
         std::vector<std::pair<ipr::Basic_qualifier, std::string>> bq;
         for (auto w : { u8"const", u8"volatile", u8"restrict", u8"foo" }) {
            bq.push_back({ ipr::Basic_qualifier{ lex.get_logogram(lex.get_string(w)) }, reinterpret_cast<const char*>(w) });
            bq.push_back({ ipr::Basic_qualifier{ lex.get_logogram(lex.get_string(std::u8string(w))) }, reinterpret_cast<const char*>(w) });
         }
         bq.push_back({ ilex.decompose(ilex.const_qualifier()).front(), "const" });
         equivalence(bq, "basic-qualifier", +[](const ipr::Basic_qualifier& a, const ipr::Basic_qualifier& b) { return a == b; },
                     +[](const ipr::Basic_qualifier& a, const ipr::Basic_qualifier& b) { return a != b; });
         // String equality is identity
         state("equality of strings");
         const ipr::String* ss[] = { &lex.get_string(u8"x"), &lex.get_string(u8"x"), &lex.get_string(u8"y"), &lex.get_string(u8""), &ipr::String::empty_string() };
         for (auto a : ss) for (auto b : ss) { chk((*a == *b) == (a == b), "string:equality", "String::operator== is not identity"); chk((*a != *b) == (a != b), "string:inequality", "String::operator!= is not the negation"); }
         chk(ss[0]->size() == 1 and ss[0]->begin() + 1 == ss[0]->end() and *ss[0]->begin() == u8'x', "string:size-begin-end", "String size()/begin()/end() disagree with characters()");
      }
      // the remaining Sequence implementations
      {
         state("single using-declaration (singleton_obj)");
         auto* sr = lex.make_scope_ref(*lex.make_id_expr(name(0)), *lex.make_id_expr(name(1)));
         auto* ud = lex.make_using_declaration(*sr, ipr::Using_declaration::Designator::Mode::Type);
         sequence_laws(static_cast<const ipr::Using_declaration&>(*ud).designators(), "singleton_obj");
         for (int n : { 0, 1, 3 }) {
            state("using-declaration with " + std::to_string(n) + " designators (obj_list)");
            auto* um = lex.make_using_declaration();
            for (int i = 0; i < n; ++i) um->seq.push_back(*sr, ipr::Using_declaration::Designator::Mode::Normal);
            sequence_laws(static_cast<const ipr::Using_declaration&>(*um).designators(), "obj_list-designators");
            state("pragma with " + std::to_string(n) + " tokens");
            auto* pg = lex.make_pragma();
            for (int i = 0; i < n; ++i) pg->tokens.push_back(lex.get_string(u8"tok"), ipr::Source_location{}, ipr::TokenValue{}, ipr::TokenCategory{});
            const ipr::Pragma& ip = *pg;
            chk(&ip.incantation() == &ip.operand(), "pragma:incantation", "incantation() is not operand()");
            sequence_laws(ip.incantation(), "obj_list-tokens");
         }
         state("handler body block has no handlers (empty_sequence)");
         auto* b = lex.make_block(region);
         auto* h = b->new_handler(name(0), ilex.int_type());
         sequence_laws(static_cast<const ipr::Handler&>(*h).body().handlers(), "empty_sequence");
         sequence_laws(static_cast<const ipr::Handler&>(*h).body().region().enclosing().bindings().elements(), "eh-scope");
      }
      rep.count("traces");
   }
}

int main(int argc, char** argv)
{
   opt = vf::parse_options(argc, argv);
   vf::install_crash_handler(opt, "C15");
   verbose = not opt.replay.empty();
   if (verbose) std::printf("replay C15: the whole (finite) state space is re-run\n");
   run();
   if (verbose) {
      for (auto& [k, v] : rep.viols) std::printf("violated: %s  (%s)\n", k.c_str(), v.what.c_str());
      return rep.viols.empty() ? 0 : 1;
   }
   rep.sample(vf::JObj{}.str("state", "block with 2 handlers").str("checked", "body()==region().body(); try_block() <=> handlers().size()>0; sequence laws of handlers and body").done());
   rep.sample(vf::JObj{}.str("state", "equality of transfers").str("checked", "all 81 pairs: == iff same (linkage, convention) spelling; reflexive, symmetric, transitive; != is the negation").done());
   rep.write(opt);
   return 0;
}
