// C02 — every factory-built node reports exactly the operands it was built from.
// The complete product (factory row x operand rotation x optional parts supplied or not) is enumerated; every row
// hands pairwise-distinct operands to different positions, so a swapped constructor argument or exchanged accessor
// cannot hide.  The sweep is replayed in three histories: fresh Lexicon; after 1000 unrelated constructions; after
// the whole table was already built once on the same Lexicon.
#include <memory>

#include "zoo/zoo.hpp"
#include "envctl.hpp"

namespace {
   vf::Report rep;
   vf::Options opt;
   bool verbose = false;

   void sweep(int rot, int history)
   {
      using namespace zoo;
      // heap-address personality of this sweep: the address-ordered lookup tables see the same requests in another order
      vf::env::set_alloc(vf::env::Alloc((rot + history) % 4));
      struct Reset { ~Reset() { vf::env::set_alloc(vf::env::Alloc::Malloc); vf::env::arena_reset(); } } reset;
      if (history == 5) {
         // every row on its own, twice in a row: a Lexicon builds just that row and dies, the next one builds the same row at the same
         // addresses and is checked (C02-K: a cursor in function-local statics keyed by the address of the list it last served)
         for (auto& r : rows()) {
            for (int second = 0; second < 2; ++second) {
               {
                  ipr::impl::Lexicon l;
                  ipr::impl::Translation_unit u{ l };
                  Ctx c{ l, u };
                  c.rot = rot;
                  c.rep = &rep;
                  c.prop = second ? "C02" : "";
                  build_row(c, r);
                  if (second) rep.count("states", (long long) c.entries.size());
               }
               vf::env::arena_reset();
            }
         }
         rep.count("traces");
         return;
      }
      if (history == 4) {
         // a Lexicon that built the whole table with the same operands has just died, and this one takes its place: under the arena
         // personalities every node of the new Lexicon lands exactly on the address of its dead counterpart (glibc reuses most)
         {
            ipr::impl::Lexicon dead;
            ipr::impl::Translation_unit dead_unit{ dead };
            Ctx d{ dead, dead_unit };
            d.rot = rot;
            d.prop = "";
            build_all(d);
         }
         vf::env::arena_reset();
      }
      ipr::impl::Lexicon lex;
      ipr::impl::Translation_unit unit{ lex };
      if (history == 1)
         for (int i = 0; i < 1000; ++i) {
            auto& id = lex.get_identifier(std::u8string(u8"noise") + char8_t('a' + i % 26) + char8_t('a' + i / 26 % 26));
            (void) lex.get_pointer(lex.get_as_type(*lex.make_id_expr(id)));
            (void) lex.make_plus(*lex.make_literal(lex.int_type(), id.string()), *lex.make_id_expr(id));
         }
      Ctx c{ lex, unit };
      c.rot = rot;
      if (history == 2) { c.prop = ""; build_all(c); }
      c.rep = &rep;
      c.prop = "C02";
      const std::size_t before = c.entries.size();
      build_all(c);
      rep.count("states", (long long) (c.entries.size() - before));
      rep.count("traces");
      for (std::size_t i = before; i < c.entries.size(); ++i) rep.member("outcomes", c.entries[i].row);
      if (verbose) std::printf("  rotation %d history %d: %zu artefacts built\n", rot, history, c.entries.size() - before);
      if (history != 3) return;
      // history 3: what each node reports must still be what it was given after the whole table has been built again, in
      // units of their own on the same Lexicon, with every other operand rotation (same factories, colliding keys)
      const std::size_t n = c.entries.size();
      c.prop = "";
      std::vector<std::string> fp(n);
      for (std::size_t i = 0; i < n; ++i) if (c.entries[i].observe) fp[i] = c.entries[i].observe(c);
      std::vector<std::unique_ptr<ipr::impl::Translation_unit>> units;
      std::vector<std::unique_ptr<Ctx>> ctxs;
      for (int r2 = 0; r2 < 12; ++r2) {
         if (r2 == rot) continue;
         units.push_back(std::make_unique<ipr::impl::Translation_unit>(lex));
         ctxs.push_back(std::make_unique<Ctx>(lex, *units.back()));
         ctxs.back()->rot = r2;
         ctxs.back()->prop = "";
         build_all(*ctxs.back());
      }
      for (std::size_t i = 0; i < n; ++i) {
         auto& e = c.entries[i];
         if (not e.observe) continue;
         rep.count("transitions");
         if (e.observe(c) != fp[i])
            rep.violation("C02:" + e.row + ":reads-differently-after-later-constructions", rot * 100 + 50,
                          "what the " + e.iface + " built by row " + e.row + " reports through its accessors is no longer what it was built from once the factories have been used again with other operands [operand rotation " + std::to_string(rot) + "]",
                          vf::JObj{}.str("pass", "C02").str("row", e.row).raw("ops", vf::jarr(std::vector<long long>{ rot, 3 })).done());
      }
   }

   // Spellings handed over in a buffer the caller refills in place (a scanner's token buffer): every node reports the
   // characters the buffer held at the call.  All ordered pairs and triples of equal-length words x 3 factories.
   void reused_buffer()
   {
      static const char8_t* const words[] = { u8"alpha", u8"gamma", u8"omega", u8"delta", u8"while", u8"short", u8"al\0ha" };
      constexpr int NW = 7, LEN = 5;
      auto text = [](ipr::util::word_view v) { return std::string(reinterpret_cast<const char*>(v.data()), v.size()); };
      for (int f = 0; f < 3; ++f)
         for (int a = 0; a < NW; ++a) for (int b = 0; b < NW; ++b) for (int c = 0; c < NW; ++c) {
            ipr::impl::Lexicon lex;
            char8_t buf[LEN];
            std::vector<std::pair<int, const ipr::String*>> got;
            for (int w : { a, b, c }) {
               for (int i = 0; i < LEN; ++i) buf[i] = words[w][i];
               ipr::util::word_view v{ buf, LEN };
               const ipr::String* s = f == 0 ? &lex.get_string(v) : f == 1 ? &lex.get_identifier(v).string() : &static_cast<const ipr::Literal&>(*lex.make_literal(lex.int_type(), v)).string();
               got.emplace_back(w, s);
            }
            rep.count("transitions", 3);
            rep.count("traces");
            for (auto& [w, s] : got)
               if (text(s->characters()) != std::string(reinterpret_cast<const char*>(words[w]), LEN)) {
                  const char* fam = f == 0 ? "get_string" : f == 1 ? "get_identifier" : "make_literal";
                  rep.violation(std::string("C02:") + fam + ":spelling-from-a-reused-buffer", f * 1000 + a * 100 + b * 10 + c,
                                std::string(fam) + " was given a buffer holding '" + std::string(reinterpret_cast<const char*>(words[w]), LEN) + "' and the node reports '" + text(s->characters()) + "' [words " + std::to_string(a) + "," + std::to_string(b) + "," + std::to_string(c) + " through one buffer refilled in place]",
                                vf::JObj{}.str("pass", "C02").str("row", "reused-buffer").raw("ops", vf::jarr(std::vector<long long>{ 0, 0, f, a, b, c })).done());
                  break;
               }
         }
   }
}

int main(int argc, char** argv)
{
   opt = vf::parse_options(argc, argv);
   vf::install_crash_handler(opt, "C02");
   (void) zoo::rows();            // built once, with the default allocator, before any address personality is selected
   verbose = not opt.replay.empty();
   if (verbose) {
      auto ops = vf::json_int_array(vf::slurp(opt.replay), "ops");
      int rot = ops.empty() ? 0 : int(ops[0]);
      std::printf("replay C02: operand rotation %d, all six histories\n", rot);
      for (int h = 0; h < 6; ++h) sweep(rot, h);
      reused_buffer();
      for (auto& [k, v] : rep.viols) std::printf("violated: %s  (%s)\n", k.c_str(), v.what.c_str());
      return rep.viols.empty() ? 0 : 1;
   }
   int job = 0;
   for (int rot = 0; rot < 12; ++rot)
      for (int h = 0; h < 6; ++h)
         if (opt.mine(job++)) sweep(rot, h);
   if (opt.shard == 1 % opt.shards) reused_buffer();
   if (opt.shard == 0) {
      rep.info("space", vf::JObj{}.num("factory_rows", (long long) zoo::rows().size()).num("operand_rotations", 12).num("histories", 6).done());
      rep.sample(vf::JObj{}.str("row", "make_conditional").str("checked", "condition/then_expr/else_expr == the three distinct operands given, in order; first/second/third likewise; type absent or given; implementation absent").done());
      rep.sample(vf::JObj{}.str("row", "make_new").str("checked", "placement absent / present, initializer, global_requested false then true after setting").done());
   }
   rep.write(opt);
   return 0;
}
