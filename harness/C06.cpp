// C06 — category code, accept() and visitor defaults agree for every node class.
// Finite configuration space closed completely: every node instance of the zoo (every factory row, every
// implementation class incl. the process-wide constants and internals) x {category, accept, two default-forwarding
// visitors, view<K> for all 159 leaf categories K}.
#include <set>

#include <functional>
#include <set>

#include "zoo/zoo.hpp"

namespace {
   vf::Report rep;
   vf::Options opt;
   bool verbose = false;
   std::set<int> leaves_seen;
   std::set<std::string> classes_seen;
   std::function<void(bool)> second_lexicon;

   void run()
   {
      using namespace zoo;
      ipr::impl::Lexicon lex;
      ipr::impl::Translation_unit unit{ lex };
      Ctx c{ lex, unit };
      c.prop = "";               // the table's own C02/C09 oracles are not this property's business
      build_all(c);
      auto examine = [](Ctx& c, const std::string& phase) {
      // every node is examined as built; classic expressions a second time with their `implementation()` link set to a
      // declaration (dispatch must not depend on it)
      std::vector<std::pair<std::size_t, int>> work;
      for (std::size_t idx = 0; idx < c.entries.size(); ++idx) work.push_back({ idx, 0 });
      for (std::size_t idx = 0; idx < c.entries.size(); ++idx) if (c.entries[idx].set_implementation) work.push_back({ idx, 1 });
      for (auto [idx, with_impl] : work) {
         const Entry& e = c.entries[idx];
         if (e.node == nullptr) continue;
         if (with_impl) { e.set_implementation(c.dc[(idx) % 2 ? 0 : 2]); rep.count("classic_nodes_with_implementation_set"); }
         rep.count("states");
         const ipr::Node& n = *e.node;
         const std::string expected = leaf_name[e.leaf];
         auto fail = [&](const std::string& key, const std::string& what) {
            rep.violation("C06:" + key, (long long) idx, what + " [node built by " + e.row + ", documented interface " + expected + (with_impl ? ", implementation() set to a declaration" : "") + phase + "]",
                          vf::JObj{}.str("pass", "C06").raw("ops", vf::jarr(std::vector<long long>{ (long long) idx })).str("row", e.row).done());
            if (verbose) std::printf("  VIOLATION C06:%s: %s [%s]\n", key.c_str(), what.c_str(), e.row.c_str());
         };
         if (e.iface.rfind("!expected-", 0) == 0) { fail("interface:" + expected, "the node reached is not of the interface its accessor promises (view<" + expected + "> yields nothing)"); }
         // 1. category is the code of its own interface class
         rep.count("transitions");
         if (n.category != leaf_code[e.leaf]) fail("category:" + expected, "category is " + std::to_string(int(n.category)) + ", the code of " + expected + " is " + std::to_string(int(leaf_code[e.leaf])));
         // 2. accept calls exactly once the hook of that interface
         Recorder r;
         n.accept(r);
         rep.count("transitions");
         if (r.calls != 1 or r.leaf != e.leaf or r.sink != -1)
            fail("accept:" + expected, "accept() ran " + std::to_string(r.calls) + " hook(s); last leaf hook " + (r.leaf >= 0 ? leaf_name[r.leaf] : "none") + ", abstract hook " + (r.sink >= 0 ? sink_name[r.sink] : "none"));
         // 3. a hook that is not overridden hands the node to its nearest abstract super-category
         SinkOnly s;
         n.accept(s);
         rep.count("transitions");
         if (s.calls != 1 or s.sink != e.sink)
            fail("default-hook:" + expected, std::string("with only the pure sinks overridden the node arrives at ") + (s.sink >= 0 ? sink_name[s.sink] : "nothing") + " (" + std::to_string(s.calls) + " calls), expected " + sink_name[e.sink]);
         SinkClassic sc;
         n.accept(sc);
         rep.count("transitions");
         if (sc.calls != 1 or sc.sink != e.sink_classic)
            fail("default-hook-classic:" + expected, std::string("with visit(Classic) also overridden the node arrives at ") + (sc.sink >= 0 ? sink_name[sc.sink] : "nothing") + ", expected " + sink_name[e.sink_classic]);
         // 4. view<K>: the node for its own category, nothing for every other leaf category
         for (int k = 0; k < NLEAVES; ++k) {
            const ipr::Node* got = view_fn[k](n);
            rep.count("transitions");
            if (k == e.leaf) { if (got != &n) fail("view-own:" + expected, "view<" + expected + "> does not yield the node"); }
            else if (got != nullptr) fail("view-other:" + expected, std::string("view<") + leaf_name[k] + "> yields a node of interface " + expected);
         }
         leaves_seen.insert(e.leaf);
         classes_seen.insert(std::string(typeid(n).name()));
         rep.member("outcomes", expected + "/" + sink_name[e.sink]);
      }
      rep.count("traces");
      };
      examine(c, "");
      // 300 visits of every node by a visitor whose hooks all refuse (as the library's own Missing_overrider visitors do):
      // afterwards dispatch and default forwarding are what they were
      {
         struct Refuser : SinkOnly {
            using SinkOnly::visit;
            void visit(const ipr::Node&) override { throw std::logic_error("refused"); }
            void visit(const ipr::Expr&) override { throw std::logic_error("refused"); }
            void visit(const ipr::Name&) override { throw std::logic_error("refused"); }
            void visit(const ipr::Type&) override { throw std::logic_error("refused"); }
            void visit(const ipr::Directive&) override { throw std::logic_error("refused"); }
            void visit(const ipr::Stmt&) override { throw std::logic_error("refused"); }
            void visit(const ipr::Decl&) override { throw std::logic_error("refused"); }
         };
         for (auto& e : c.entries) {
            if (e.node == nullptr) continue;
            for (int k = 0; k < 300; ++k) { Refuser r; try { e.node->accept(r); } catch (const std::logic_error&) { } rep.count("transitions"); }
         }
         examine(c, ", after 300 refused visits of every node");
      }
      rep.count("distinct_nontrivial", (long long) classes_seen.size());
      second_lexicon = [examine](bool) mutable {
         // (runs after the first Lexicon, its unit and the context are gone) small nodes of several classes first, so that
         // storage released by the first Lexicon is in use again, then a unit and the constants / internals once more
         ipr::impl::Lexicon lex2;
         for (int i = 0; i < 400; ++i) {
            auto& t = lex2.get_pointer(i % 2 ? lex2.int_type() : lex2.char_type());
            (void) lex2.get_ctor_name(t); (void) lex2.get_dtor_name(t); (void) lex2.get_conversion(lex2.get_pointer(t)); (void) lex2.get_reference(t);
            (void) lex2.make_phantom(); (void) lex2.get_operator(std::u8string(1, char8_t('!' + i % 60)));
         }
         ipr::impl::Translation_unit unit2{ lex2 };
         ipr::impl::Module mod{ lex2 };
         zoo::Ctx c2{ lex2, unit2 };
         c2.prop = "";
         c2.current_row = "second-lexicon";
         zoo::register_constants_and_internals(c2);
         auto name_entry = [&](const ipr::Translation_unit& u, const char* what) {
            const ipr::Name& nm = u.global_namespace().name();
            if (auto id = ipr::util::view<ipr::Identifier>(nm)) c2.node<ipr::Identifier>(*id, what, false);
            else rep.violation("C06:interface:Identifier", 0, std::string("the name of the global namespace of a unit of a second Lexicon (") + what + ") is not an Identifier: category " + std::to_string(int(nm.category)),
                               vf::JObj{}.str("pass", "C06").raw("ops", "[]").str("row", what).done());
            c2.node<ipr::Namespace>(u.global_namespace(), what, false);
         };
         name_entry(unit2, ":global-namespace-of-translation-unit");
         name_entry(mod.iface, ":global-namespace-of-interface-unit");
         name_entry(*mod.make_unit(), ":global-namespace-of-module-unit");
         examine(c2, ", on a second Lexicon created after the first one was destroyed");
      };
      std::vector<std::string> missing;
      for (int k = 0; k < NLEAVES; ++k) if (not leaves_seen.count(k)) missing.push_back(vf::jstr(leaf_name[k]));
      rep.info("coverage", vf::JObj{}.num("leaf_categories", NLEAVES).num("leaf_categories_with_an_instance", (long long) leaves_seen.size())
                              .num("distinct_implementation_classes", (long long) classes_seen.size()).num("node_instances", rep.counters["states"])
                              .raw("categories_without_instance", vf::jarr(missing)).done());
      if (not missing.empty()) rep.cap("categories without an instance in the zoo");
   }
}

int main(int argc, char** argv)
{
   opt = vf::parse_options(argc, argv);
   vf::install_crash_handler(opt, "C06");
   verbose = not opt.replay.empty();
   if (verbose) std::printf("replay C06: the whole (finite) configuration space is re-run\n");
   run();
   second_lexicon(true);
   if (verbose) {
      for (auto& [k, v] : rep.viols) std::printf("violated: %s  (%s)\n", k.c_str(), v.what.c_str());
      return rep.viols.empty() ? 0 : 1;
   }
   rep.sample(vf::JObj{}.str("node", "make_plus+type").str("interface", "Plus").str("checked", "category==Plus; accept -> visit(Plus) once; sinks-only visitor -> Expr; with Classic -> Classic; view<Plus>==node, view<K>==null for 158 other K").done());
   rep.write(opt);
   return 0;
}
