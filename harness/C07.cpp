// C07 — scopes, overload sets and declaration sets are mutually consistent.
// All sequences of declarations up to a bound over 3 names x 3 types per name are entered into one heterogeneous
// scope on a fresh Lexicon; the declaration kind is a function of the (name, type) pair (four fixed assignments that
// together use all eight kinds).  The reference model is the plain vector of (name, type, kind) in entry order; the
// whole scope is compared with it in every final state.  Parameter lists, enumerations, base lists and handler
// regions are enumerated separately (all member sequences up to length 5).
#include <algorithm>
#include <cmath>
#include <functional>
#include <map>
#include <string>
#include <vector>
#include <memory>

#include <ipr/impl>

#include "envctl.hpp"
#include "report.hpp"

namespace {
   vf::Report rep;
   vf::Options opt;
   bool verbose = false;

   enum Kind { Var, Field, Bitfield, Alias, Typedecl, Fundecl, Primary, Secondary };
   const char* kind_name[] = { "var", "field", "bitfield", "alias", "typedecl", "fundecl", "primary-template", "secondary-template" };
   const ipr::Category_code kind_cat[] = { ipr::Category_code::Var, ipr::Category_code::Field, ipr::Category_code::Bitfield, ipr::Category_code::Alias,
                                           ipr::Category_code::Typedecl, ipr::Category_code::Fundecl, ipr::Category_code::Template, ipr::Category_code::Template };

   // assignment[k][name][slot] -> kind
   const Kind assignment[4][3][3] = {
      { { Var, Var, Var }, { Fundecl, Fundecl, Fundecl }, { Fundecl, Fundecl, Var } },
      { { Field, Bitfield, Alias }, { Typedecl, Typedecl, Var }, { Primary, Secondary, Fundecl } },
      { { Alias, Typedecl, Fundecl }, { Primary, Primary, Secondary }, { Var, Field, Bitfield } },
      { { Bitfield, Fundecl, Primary }, { Secondary, Alias, Field }, { Typedecl, Var, Alias } },
   };
   const char* name_text[] = { "a", "b", "operator+" };

   // The second (or transient) Lexicon of an execution is not byte-for-byte the twin of the first: it starts by interning a word of its
   // own, so that whatever it writes lands at other offsets than the first one's (two Lexicons sharing storage they should not
   // share overwrite each other with DIFFERENT bytes, not with the same ones).
   bool other_world = false;
   struct Salted { explicit Salted(ipr::impl::Lexicon& l) { if (other_world) { (void) l.get_identifier(u8"the-other-lexicon-was-here"); (void) l.get_string(u8"0123456789-other"); } } };
   struct World {
      ipr::impl::Lexicon lex;
      Salted salted{ lex };
      ipr::impl::Translation_unit unit{ lex };
      ipr::impl::Region* region;
      ipr::impl::Scope* scope;
      const ipr::Name* names[4];                 // 3 used + 1 never declared
      const ipr::Type* data_types[3];
      const ipr::Type* udt_types[3];
      const ipr::Function* fun_types[3];
      const ipr::Forall* forall_types[3];
      const ipr::Expr* inits[3];

      World()
      {
         // a dedicated region below the global one, so that the global namespace's own scope is not involved
         region = unit.global_region()->make_subregion();
         scope = &region->scope;
         names[0] = &lex.get_identifier(u8"a");
         names[1] = &lex.get_identifier(u8"b");
         names[2] = &lex.get_operator(u8"+");
         names[3] = &lex.get_identifier(u8"never");
         data_types[0] = &lex.int_type();
         data_types[1] = &lex.char_type();
         data_types[2] = &lex.get_pointer(lex.int_type());
         udt_types[0] = &lex.class_type();
         udt_types[1] = &lex.union_type();
         udt_types[2] = &lex.enum_type();
         ipr::impl::Warehouse<ipr::Type> w0, w1, w2;
         w1.push_back(lex.int_type());
         w2.push_back(lex.char_type());
         fun_types[0] = &lex.get_function(lex.get_product(w1), lex.int_type());
         fun_types[1] = &lex.get_function(lex.get_product(w2), lex.int_type());
         fun_types[2] = &lex.get_function(lex.get_product(w0), lex.void_type());
         ipr::impl::Warehouse<ipr::Type> t1, t2;
         t1.push_back(lex.typename_type());
         t2.push_back(lex.typename_type());
         t2.push_back(lex.int_type());
         forall_types[0] = &lex.get_forall(lex.get_product(t1), lex.class_type());
         forall_types[1] = &lex.get_forall(lex.get_product(t2), lex.class_type());
         forall_types[2] = &lex.get_forall(lex.get_product(t1), *fun_types[0]);
         inits[0] = lex.make_literal(*data_types[0], u8"1");
         inits[1] = lex.make_literal(*data_types[1], u8"c");
         inits[2] = lex.make_literal(*data_types[2], u8"0");
      }

      const ipr::Type& type_for(Kind k, int slot) const
      {
         switch (k) {
         case Typedecl: return *udt_types[slot];
         case Fundecl: return *fun_types[slot];
         case Primary: case Secondary: return *forall_types[slot];
         default: return *data_types[slot];
         }
      }

      const ipr::Decl* declare(Kind k, int name, int slot)
      {
         const ipr::Name& n = *names[name];
         switch (k) {
         case Var: return scope->make_var(n, *data_types[slot]);
         case Field: return scope->make_field(n, *data_types[slot]);
         case Bitfield: return scope->make_bitfield(n, *data_types[slot]);
         case Alias: return scope->make_alias(n, *inits[slot]);
         case Typedecl: return scope->make_typedecl(n, *udt_types[slot]);
         case Fundecl: return scope->make_fundecl(n, *fun_types[slot]);
         case Primary: return scope->make_primary_template(n, *forall_types[slot]);
         case Secondary: return scope->make_secondary_template(n, *forall_types[slot]);
         }
         return nullptr;
      }
   };

   struct Hist {
      int assign;
      std::vector<int> pairs;           // each 0..8 = name*3 + slot
      unsigned observe = 0;             // bit i set: the whole scope is also validated (looked up, selected, read) after step i
      int twin = 0;                     // 1: a second Lexicon makes every declaration right after this one and is validated too; 2: after every step a
                                        //    transient Lexicon repeats the history so far, is validated, and dies
      int mode() const { int m = assign; for (int p : pairs) m += p; return m % 3 + 1; }     // address personality, a function of the history
      std::string text() const
      {
         std::string s = "assignment " + std::to_string(assign) + ":";
         for (int p : pairs) s += std::string(" ") + kind_name[assignment[assign][p / 3][p % 3]] + "(" + name_text[p / 3] + ",t" + std::to_string(p % 3) + ")";
         if (observe) s += " observed-after-steps-mask=" + std::to_string(observe);
         if (twin == 1) s += " [a second Lexicon in lockstep]";
         if (twin == 2) s += " [a transient Lexicon after every step]";
         return s;
      }
   };

   const Hist* cur = nullptr;
   void describe_current(char* buf, std::size_t n)
   {
      if (cur == nullptr) { buf[0] = 0; return; }
      std::size_t used = std::snprintf(buf, n, "\"pass\":\"C07\",\"assign\":%d,\"ops\":[", cur->assign);
      for (std::size_t i = 0; i < cur->pairs.size() and used + 16 < n; ++i) used += std::snprintf(buf + used, n - used, "%s%d", i ? "," : "", cur->pairs[i]);
      std::snprintf(buf + used, n - used, "]");
   }

   void fail(const std::string& key, const Hist& h, const std::string& what)
   {
      std::vector<long long> ops(h.pairs.begin(), h.pairs.end());
      rep.violation(key, static_cast<long long>(h.pairs.size()) * 4 + h.assign, what + " [" + h.text() + "]",
                    vf::JObj{}.str("pass", "C07").num("assign", h.assign).num("observe", h.observe).num("twin", h.twin).raw("ops", vf::jarr(ops)).str("history", h.text()).done());
      if (verbose) std::printf("  VIOLATION %s: %s\n", key.c_str(), what.c_str());
   }

   struct Entry { int name, slot; Kind kind; const ipr::Decl* decl; };
   void validate(const Hist& h, World& w, const std::vector<Entry>& model);

   void run(const Hist& h)
   {
      cur = &h;
      vf::env::set_alloc(vf::env::Alloc(h.mode()));
      struct Reset { ~Reset() { vf::env::set_alloc(vf::env::Alloc::Malloc); vf::env::arena_reset(); } } reset;
      World w;
      std::vector<Entry> model;
      std::unique_ptr<World> second;
      std::vector<Entry> model2;
      if (h.twin == 1) { other_world = true; second = std::make_unique<World>(); other_world = false; }
      int step = 0;
      for (int p : h.pairs) {
         Kind k = assignment[h.assign][p / 3][p % 3];
         const ipr::Decl* d = w.declare(k, p / 3, p % 3);
         rep.count("transitions");
         rep.count("states");
         if (d == nullptr) { fail("C07:declare:null", h, "a declaration factory returned null"); return; }
         model.push_back({ p / 3, p % 3, k, d });
         if (second) {
            const ipr::Decl* d2 = second->declare(k, p / 3, p % 3);
            rep.count("transitions");
            if (d2 == nullptr) { fail("C07:declare:null", h, "a declaration factory returned null"); return; }
            model2.push_back({ p / 3, p % 3, k, d2 });
         }
         if (h.twin == 2) {
            other_world = true;
            World t;
            other_world = false;
            std::vector<Entry> mt;
            for (int j = 0; j <= step; ++j) {
               const int pj = h.pairs[std::size_t(j)];
               Kind kj = assignment[h.assign][pj / 3][pj % 3];
               const ipr::Decl* dj = t.declare(kj, pj / 3, pj % 3);
               rep.count("transitions");
               if (dj == nullptr) { fail("C07:declare:null", h, "a declaration factory returned null"); return; }
               mt.push_back({ pj / 3, pj % 3, kj, dj });
            }
            validate(h, t, mt);
         }
         if ((h.observe >> step) & 1u) { validate(h, w, model); rep.count("intermediate_observations"); }
         ++step;
      }
      validate(h, w, model);
      if (second) validate(h, *second, model2);
      rep.count("traces");
      if (rep.samples.size() < rep.sample_cap and h.pairs.size() >= 4 and (h.observe != 0 or rep.samples.size() < 2))
         rep.sample(vf::JObj{}.str("history", h.text()).num("declarations", (long long) model.size()).str("address_personality", vf::env::alloc_name(vf::env::Alloc(h.mode()))).done());
      {
         const std::size_t n = model.size();
         std::map<int, int> g;
         for (auto& e : model) ++g[e.name * 3 + e.slot];
         std::string sig;
         for (auto& [k, c] : g) sig += char('0' + std::min(c, 9));
         std::sort(sig.begin(), sig.end());
         rep.member("outcomes", sig);
         if (g.size() < n and h.observe == 0) rep.count("distinct_nontrivial");           // at least one redeclaration
      }
      cur = nullptr;
   }

   void validate(const Hist& h, World& w, const std::vector<Entry>& model)
   {
      const ipr::Scope& scope = *w.scope;
      const std::size_t n = model.size();
      // 1. entry order
      auto& elems = scope.elements();
      if (elems.size() != n or scope.size() != n) fail("C07:elements:size", h, "the scope lists " + std::to_string(elems.size()) + " declarations, " + std::to_string(n) + " were entered");
      else {
         std::size_t i = 0;
         for (auto& d : elems) {
            if (&d != model[i].decl) { fail("C07:elements:order", h, "element #" + std::to_string(i) + " of the scope is not the declaration entered at that step"); break; }
            ++i;
         }
      }
      // 2. the scope's type is the product of the declarations' types in order
      if (auto prod = ipr::util::view<ipr::Product>(scope.type())) {
         if (prod->size() != n) fail("C07:type:product-size", h, "the scope's type has " + std::to_string(prod->size()) + " components");
         else
            for (std::size_t i = 0; i < n; ++i)
               if (&(*prod)[i] != &w.type_for(model[i].kind, model[i].slot)) { fail("C07:type:product-element", h, "component #" + std::to_string(i) + " of the scope's type is not the type of declaration #" + std::to_string(i)); break; }
      }
      else fail("C07:type:not-a-product", h, "the type of the scope is not a Product");
      // 3. lookup by name
      for (int nm = 0; nm < 4; ++nm) {
         bool declared = std::any_of(model.begin(), model.end(), [&](auto& e) { return e.name == nm; });
         auto ovl = scope[*w.names[nm]];
         rep.count("transitions");
         if (declared and not ovl.is_valid()) { fail("C07:lookup:declared-name-not-found", h, std::string("looking up the declared name '") + name_text[std::min(nm, 2)] + "' yields nothing"); continue; }
         if (not declared and ovl.is_valid()) { fail("C07:lookup:undeclared-name-found", h, "looking up a name that was never declared yields an overload set"); continue; }
         if (not declared) continue;
         // 4. selection by type: first declaration entered with that (name, type)
         for (int slot = 0; slot < 3; ++slot) {
            Kind k = assignment[h.assign][nm][slot];
            const ipr::Type& t = w.type_for(k, slot);
            auto first = std::find_if(model.begin(), model.end(), [&](auto& e) { return e.name == nm and e.slot == slot; });
            auto sel = ovl.get()[t];
            rep.count("transitions");
            if (first == model.end()) { if (sel.is_valid()) fail("C07:select:absent-type-found", h, "selecting by a type never declared under that name yields a declaration"); }
            else if (not sel.is_valid()) fail("C07:select:declared-type-not-found", h, "selecting by the type of a declaration yields nothing");
            else if (&sel.get() != first->decl) fail("C07:select:not-first-declaration", h, "selecting by type does not yield the first declaration entered with that name and type");
         }
         // a type that no declaration of this history uses
         if (ovl.get()[w.lex.double_type()].is_valid()) fail("C07:select:absent-type-found", h, "selecting by an unrelated type yields a declaration");
      }
      // 5a. the declaration-sets of ALL declarations are obtained first and examined afterwards (a reference handed out for
      //     one declaration must not be repointed by asking the next one)
      {
         std::vector<const ipr::Sequence<ipr::Decl>*> sets(n, nullptr);
         for (std::size_t i = 0; i < n; ++i) { try { sets[i] = &model[i].decl->decl_set(); } catch (const std::exception&) { } }
         for (std::size_t i = 0; i < n; ++i) {
            if (sets[i] == nullptr) continue;
            std::vector<const ipr::Decl*> group;
            for (auto& o : model) if (o.name == model[i].name and o.slot == model[i].slot) group.push_back(o.decl);
            bool same = sets[i]->size() == group.size();
            std::size_t j = 0;
            if (same) for (auto& m : *sets[i]) { same = same and &m == group[j]; ++j; }
            rep.count("transitions");
            if (not same) { fail("C07:decl-set:changed-by-asking-another", h, "the declaration-set obtained for declaration #" + std::to_string(i) + " holds something else once the declaration-sets of the other declarations have been asked for"); break; }
         }
      }
      // 5. per declaration: name, type, category, master, decl_set
      for (std::size_t i = 0; i < n; ++i) {
         const Entry& e = model[i];
         const ipr::Decl& d = *e.decl;
         std::vector<const ipr::Decl*> group;
         for (auto& o : model) if (o.name == e.name and o.slot == e.slot) group.push_back(o.decl);
         const std::string which = "declaration #" + std::to_string(i);
         if (d.category != kind_cat[e.kind]) fail(std::string("C07:decl:category:") + kind_name[e.kind], h, which + " does not have the category of its kind");
         try { if (&d.name() != w.names[e.name]) fail("C07:decl:name", h, which + " does not report the name it was declared with"); }
         catch (const std::exception& x) { fail("C07:decl:name-refused", h, which + ".name() refused: " + x.what()); }
         try { if (&d.type() != &w.type_for(e.kind, e.slot)) fail("C07:decl:type", h, which + " does not report the type it was declared with"); }
         catch (const std::exception& x) { fail("C07:decl:type-refused", h, which + ".type() refused: " + x.what()); }
         const ipr::Decl* master = nullptr;
         try { master = &d.master(); rep.count("transitions"); }
         catch (const std::exception& x) { fail("C07:master:refused", h, which + ".master() refused: " + x.what()); }
         if (master != nullptr and master != group.front()) fail("C07:master:not-first-declaration", h, which + ".master() is not the first declaration of its name and type");
         try {
            auto& set = d.decl_set();
            rep.count("transitions");
            if (set.size() != group.size()) fail("C07:decl-set:size", h, which + ".decl_set() has " + std::to_string(set.size()) + " members, " + std::to_string(group.size()) + " declarations share its name and type");
            else {
               std::size_t j = 0;
               for (auto& m : set) { if (&m != group[j]) { fail("C07:decl-set:order", h, which + ".decl_set() is not the group in entry order"); break; } ++j; }
            }
         }
         catch (const std::exception& x) { fail("C07:decl-set:refused", h, which + ".decl_set() refused: " + x.what()); }
      }
   }

   int observe_depth = 6;
   void enumerate(int depth)
   {
      long long idx = 0;
      for (int d = 0; d <= depth; ++d) {
         std::vector<int> p(d, 0);
         while (true) {
            for (int a = 0; a < 4; ++a)
               if (opt.mine(idx++)) {
                  run(Hist{ a, p, 0u });                                              // default: the scope is only examined at the end
                  if (d >= 2 and d <= observe_depth) {
                     for (int s = 0; s + 1 < d; ++s) run(Hist{ a, p, 1u << s });      // one deviation: also examined after step s
                     if (d > 2) run(Hist{ a, p, (1u << (d - 1)) - 1u });             // examined after every step
                  }
                  if (d >= 1 and d <= 4) { run(Hist{ a, p, 0u, 1 }); run(Hist{ a, p, 0u, 2 }); }   // more than one Lexicon
               }
            int i = d - 1;
            while (i >= 0 and ++p[i] == 9) p[i--] = 0;
            if (i < 0) break;
            if ((idx & 0xfff) == 0 and opt.expired()) { rep.cap("deadline at length " + std::to_string(d)); return; }
         }
         if (opt.shard == 0) rep.maxi("max_depth", d);
      }
   }

   // ---- homogeneous containers ----
   struct HWitness { std::string container; std::vector<long long> ops; std::string text; };

   void hfail(const std::string& key, const HWitness& w, const std::string& what)
   {
      rep.violation(key, static_cast<long long>(w.ops.size()), what + " [" + w.container + ": " + w.text + "]",
                    vf::JObj{}.str("pass", "C07").str("container", w.container).raw("ops", vf::jarr(w.ops)).done());
      if (verbose) std::printf("  VIOLATION %s: %s\n", key.c_str(), what.c_str());
   }

   // Checks common to every homogeneous container.  D: interface declaration type with position().
   template<class D>
   void check_homogeneous(const HWitness& hw, const ipr::Sequence<D>& members, const ipr::Scope& scope,
                          const std::vector<const ipr::Name*>& names, const std::vector<const ipr::Type*>& types,
                          const std::vector<const D*>& made, const ipr::Name& absent, const ipr::Type& other_type)
   {
      const std::string c = "C07:" + hw.container + ":";
      const std::size_t n = made.size();
      // the member added last is read FIRST, directly by position (the previous examination ended with a refused read at the
      // then size(): a refused access must leave nothing behind that this one trips over)
      if (n > 0) {
         rep.count("transitions");
         try { if (&*members.position(n - 1) != made[n - 1]) { hfail(c + "order", hw, "the member added last, read directly by its position right after an out-of-range read was refused, is not the one that was added"); return; } }
         catch (const std::exception& e) { hfail(c + "valid-position-refused", hw, std::string("reading the member added last by its position is refused: ") + e.what()); return; }
      }
      struct Refused_read_at_size { const ipr::Sequence<D>& m; std::size_t n; ~Refused_read_at_size() { try { (void) &*m.position(n + 1); } catch (...) { } try { (void) &*m.position(n); } catch (...) { } } } leave_a_refusal_behind{ members, n };
      if (members.size() != n or scope.size() != n) { hfail(c + "size", hw, "the container reports " + std::to_string(members.size()) + "/" + std::to_string(scope.size()) + " members, " + std::to_string(n) + " were added"); return; }
      std::size_t i = 0;
      for (auto& m : members) { if (&m != made[i]) { hfail(c + "order", hw, "member #" + std::to_string(i) + " is not the one added at that step"); return; } ++i; }
      i = 0;
      for (auto& d : scope.elements()) { if (&d != static_cast<const ipr::Decl*>(made[i])) { hfail(c + "scope-order", hw, "the scope of the container lists another declaration at #" + std::to_string(i)); return; } ++i; }
      if (auto prod = ipr::util::view<ipr::Product>(scope.type())) {
         if (prod->size() != n) hfail(c + "type-size", hw, "the type of the container's scope has the wrong size");
         else for (std::size_t k = 0; k < n; ++k) if (&(*prod)[k] != types[k]) { hfail(c + "type-element", hw, "component #" + std::to_string(k) + " of the scope type is wrong"); break; }
      }
      else hfail(c + "type-not-product", hw, "the type of the container's scope is not a Product");
      {
         std::vector<const ipr::Sequence<ipr::Decl>*> sets;
         for (std::size_t k = 0; k < n; ++k) sets.push_back(&made[k]->decl_set());
         for (std::size_t k = 0; k < n; ++k)
            if (sets[k]->size() != 1 or &*sets[k]->begin() != static_cast<const ipr::Decl*>(made[k])) { hfail(c + "decl-set-changed-by-asking-another", hw, "the declaration-set obtained for member #" + std::to_string(k) + " holds another member once the sets of the other members have been asked for"); break; }
      }
      for (std::size_t k = 0; k < n; ++k) {
         const D& d = *made[k];
         rep.count("transitions", 6);
         if (std::size_t(d.position()) != k) hfail(c + "position", hw, "member #" + std::to_string(k) + " reports position " + std::to_string(std::size_t(d.position())));
         if (&d.name() != names[k]) hfail(c + "name", hw, "member #" + std::to_string(k) + " does not report its name");
         if (&d.type() != types[k]) hfail(c + "type", hw, "member #" + std::to_string(k) + " does not report its type");
         if (&d.master() != static_cast<const ipr::Decl*>(&d)) hfail(c + "master-not-self", hw, "the master of member #" + std::to_string(k) + " is not itself");
         auto& set = d.decl_set();
         if (set.size() != 1 or &*set.begin() != static_cast<const ipr::Decl*>(&d)) hfail(c + "decl-set-not-singleton", hw, "the declaration-set of member #" + std::to_string(k) + " is not the singleton of itself");
         auto ovl = scope[*names[k]];
         if (not ovl.is_valid()) { hfail(c + "lookup-not-found", hw, "looking up the name of member #" + std::to_string(k) + " yields nothing"); continue; }
         auto sel = ovl.get()[*types[k]];
         // names are pairwise distinct within one sequence, so the member found must be this one
         if (not sel.is_valid() or &sel.get() != static_cast<const ipr::Decl*>(&d)) hfail(c + "select-by-type", hw, "selecting member #" + std::to_string(k) + " by its type does not yield it");
         if (ovl.get()[other_type].is_valid()) hfail(c + "select-wrong-type", hw, "selecting by an unrelated type yields a member");
      }
      if (scope[absent].is_valid()) hfail(c + "lookup-absent-found", hw, "looking up a name that is not a member yields an overload set");
   }

   void homogeneous(int maxlen)
   {
      // all arrangements (no repeated name) of up to maxlen names out of 5, with every assignment of 3 types
      const int NN = 5;
      long long idx = 0;
      std::vector<int> seq;
      std::function<void()> rec = [&] {
         const int len = int(seq.size());
         int combos = 1;
         for (int i = 0; i < len; ++i) combos *= 3;
         for (int tc = 0; tc < combos; ++tc) {
            if (not opt.mine(idx++)) continue;
            ipr::impl::Lexicon lex;
            ipr::impl::Translation_unit unit{ lex };
            auto& region = *unit.global_region();
            const ipr::Name* nm[NN + 1];
            for (int i = 0; i <= NN; ++i) nm[i] = &lex.get_identifier(std::u8string(1, char8_t('p' + i)));
            const ipr::Type* ty[3] = { &lex.int_type(), &lex.char_type(), &lex.get_pointer(lex.char_type()) };
            HWitness hw;
            for (int i = 0; i < len; ++i) hw.ops.push_back(seq[i] * 3 + (tc / int(std::pow(3, i))) % 3);
            for (auto o : hw.ops) hw.text += std::string(1, char('p' + o / 3)) + ":t" + std::to_string(o % 3) + " ";
            std::vector<const ipr::Name*> names;
            std::vector<const ipr::Type*> types;
            for (auto o : hw.ops) { names.push_back(nm[o / 3]); types.push_back(ty[o % 3]); }
            // observation schedules: only at the end; additionally after one step s; after every step
            std::vector<unsigned> masks{ 0u };
            for (int s2 = 0; s2 + 1 < len; ++s2) masks.push_back(1u << s2);
            if (len > 2) masks.push_back((1u << (len - 1)) - 1u);
            for (unsigned mask : masks) {
               auto prefix = [&](auto v, int k) { v.resize(std::size_t(k)); return v; };
               HWitness pw = hw;
               if (mask) pw.text += "(observed after steps mask " + std::to_string(mask) + ")";
               // parameter list (through a mapping)
               {
                  pw.container = "parameter-list";
                  auto* map = lex.make_mapping(region, ipr::Mapping_level{ 2 });
                  std::vector<const ipr::Parameter*> made;
                  auto& pl = map->parameters();
                  for (int i = 0; i < len; ++i) {
                     made.push_back(map->param(*names[i], *types[i])); rep.count("transitions"); rep.count("states");
                     if ((mask >> i) & 1u) check_homogeneous<ipr::Parameter>(pw, pl.elements(), pl.region().bindings(), prefix(names, i + 1), prefix(types, i + 1), made, *nm[NN], lex.double_type());
                  }
                  check_homogeneous<ipr::Parameter>(pw, pl.elements(), pl.region().bindings(), names, types, made, *nm[NN], lex.double_type());
                  for (auto p : made) if (std::size_t(p->level()) != 2) hfail("C07:parameter-list:level", pw, "a parameter does not report the nesting level of its list");
                  if (&pl.type() != &pl.region().bindings().type()) hfail("C07:parameter-list:type", pw, "the list's type is not its scope's type");
                  rep.count("traces");
               }
               // enumeration (types play no role: every enumerator has the enum as its type) -- once per name sequence
               if (tc == 0) {
                  pw.container = "enumeration";
                  auto* en = lex.make_enum(region, ipr::Enum::Kind::Scoped);
                  std::vector<const ipr::Enumerator*> made;
                  std::vector<const ipr::Type*> etypes(len, en);
                  for (int i = 0; i < len; ++i) {
                     made.push_back(en->add_member(*names[i])); rep.count("transitions"); rep.count("states");
                     if ((mask >> i) & 1u) check_homogeneous<ipr::Enumerator>(pw, en->members(), en->region().bindings(), prefix(names, i + 1), prefix(etypes, i + 1), made, *nm[NN], lex.double_type());
                  }
                  check_homogeneous<ipr::Enumerator>(pw, en->members(), en->region().bindings(), names, etypes, made, *nm[NN], lex.double_type());
                  rep.count("traces");
               }
            }
         }
         if (len == maxlen) return;
         for (int c = 0; c < NN; ++c) {
            if (std::find(seq.begin(), seq.end(), c) != seq.end()) continue;
            seq.push_back(c);
            rec();
            seq.pop_back();
         }
      };
      rec();
      // base lists: all arrangements of up to 4 distinct base types
      std::vector<int> bs;
      std::function<void()> brec = [&] {
         if (opt.mine(idx++)) {
            ipr::impl::Lexicon lex;
            ipr::impl::Translation_unit unit{ lex };
            auto& region = *unit.global_region();
            std::vector<ipr::impl::Class*> pool;
            for (int i = 0; i < 4; ++i) { auto* c = lex.make_class(region); c->id = &lex.get_identifier(std::u8string(1, char8_t('A' + i))); pool.push_back(c); }
            auto* derived = lex.make_class(region);
            derived->id = &lex.get_identifier(u8"D");
            HWitness hw;
            hw.container = "base-list";
            std::vector<const ipr::Base_type*> made;
            std::vector<const ipr::Name*> names;
            std::vector<const ipr::Type*> types;
            for (int b : bs) {
               made.push_back(derived->declare_base(*pool[b]));
               rep.count("transitions");
               rep.count("states");
               names.push_back(&pool[b]->name());
               types.push_back(pool[b]);
               hw.ops.push_back(b);
               hw.text += std::string(1, char('A' + b)) + " ";
               // odd-numbered arrangements are also examined after every single addition, the others only at the end
               if (idx & 1) check_homogeneous<ipr::Base_type>(hw, derived->bases(), made[0]->home_region().bindings(), names, types, made, lex.get_identifier(u8"Z"), lex.double_type());
            }
            if (not made.empty())
               check_homogeneous<ipr::Base_type>(hw, derived->bases(), made[0]->home_region().bindings(), names, types, made, lex.get_identifier(u8"Z"), lex.double_type());
            else if (derived->bases().size() != 0) hfail("C07:base-list:size", hw, "an empty base list is not empty");
            rep.count("traces");
         }
         if (bs.size() == 4) return;
         for (int c = 0; c < 4; ++c) {
            if (std::find(bs.begin(), bs.end(), c) != bs.end()) continue;
            bs.push_back(c);
            brec();
            bs.pop_back();
         }
      };
      brec();
      // handler regions: blocks with 0..3 handlers, each region binds exactly its exception parameter
      for (int nh = 0; nh <= 3; ++nh) {
         if (not opt.mine(idx++)) continue;
         ipr::impl::Lexicon lex;
         ipr::impl::Translation_unit unit{ lex };
         auto* block = lex.make_block(*unit.global_region());
         HWitness hw;
         hw.container = "handler-region";
         hw.ops = { nh };
         hw.text = std::to_string(nh) + " handlers";
         const ipr::Type* ty[3] = { &lex.int_type(), &lex.char_type(), &lex.ellipsis_type() };
         std::vector<const ipr::Handler*> hs;
         for (int i = 0; i < nh; ++i) { hs.push_back(block->new_handler(lex.get_identifier(std::u8string(1, char8_t('e' + i))), *ty[i])); rep.count("transitions"); rep.count("states"); }
         if (block->handlers().size() != std::size_t(nh)) hfail("C07:handler-region:count", hw, "the block does not list the handlers added");
         int i = 0;
         for (auto& h : block->handlers()) {
            if (&h != hs[i]) hfail("C07:handler-region:order", hw, "handler order differs from creation order");
            const ipr::EH_parameter& p = h.exception();
            const ipr::Scope& sc = h.body().region().enclosing().bindings();
            if (sc.size() != 1 or &*sc.elements().begin() != static_cast<const ipr::Decl*>(&p)) hfail("C07:handler-region:bindings", hw, "the handler's region does not bind exactly its exception parameter");
            if (&p.master() != static_cast<const ipr::Decl*>(&p) or p.decl_set().size() != 1) hfail("C07:handler-region:singleton", hw, "the exception parameter is not its own singleton declaration-set");
            auto ovl = sc[p.name()];
            if (not ovl.is_valid() or not ovl.get()[p.type()].is_valid() or &ovl.get()[p.type()].get() != static_cast<const ipr::Decl*>(&p)) hfail("C07:handler-region:lookup", hw, "the exception parameter is not found by name and type");
            if (auto prod = ipr::util::view<ipr::Product>(sc.type())) { if (prod->size() != 1 or &(*prod)[0] != ty[i]) hfail("C07:handler-region:type", hw, "the handler scope's type is not the product of the parameter's type"); }
            else hfail("C07:handler-region:type", hw, "the handler scope's type is not a Product");
            ++i;
         }
         rep.count("traces");
      }
   }
}

   // ---- wide overload sets and long member lists ----
   // One name declared with N pairwise distinct types (N far beyond the three per name of the histories): after EVERY
   // addition every type entered so far selects its first declaration; then every pair is declared again (in another order)
   // and master / decl_set are checked.  Member lists with hundreds of members: position == index, lookup finds each.
   void wide(int N, int long_list)
   {
      HWitness hw;
      hw.container = "wide-overload-set";
      hw.ops = { N };
      hw.text = "one name with " + std::to_string(N) + " distinct types";
      for (int kind = 0; kind < 3; ++kind) {
         ipr::impl::Lexicon lex;
         ipr::impl::Translation_unit unit{ lex };
         auto* region = unit.global_region()->make_subregion();
         const ipr::Scope& scope = static_cast<const ipr::Region&>(*region).bindings();
         auto& name = lex.get_identifier(u8"overloaded");
         std::vector<const ipr::Type*> types;
         std::vector<const ipr::Decl*> first;
         const ipr::Type* t = &lex.int_type();
         ipr::impl::Warehouse<ipr::Type> wh;
         for (int i = 0; i < N; ++i) {
            if (kind == 1) { wh.push_back(i % 2 ? lex.char_type() : lex.int_type()); t = &lex.get_function(lex.get_product(wh), lex.void_type()); }
            else t = i % 3 == 2 ? static_cast<const ipr::Type*>(&lex.get_reference(*types[std::size_t(i - 2)])) : static_cast<const ipr::Type*>(&lex.get_pointer(*t));
            types.push_back(t);
            const ipr::Decl* d = kind == 1 ? static_cast<const ipr::Decl*>(region->declare_fun(name, *static_cast<const ipr::Function*>(t)))
                                 : kind == 0 ? static_cast<const ipr::Decl*>(region->declare_var(name, *t)) : static_cast<const ipr::Decl*>(region->declare_field(name, *t));
            first.push_back(d);
            rep.count("transitions"); rep.count("states");
            auto ovl = scope[name];
            if (not ovl.is_valid()) { hfail("C07:lookup:declared-name-not-found", hw, "a name declared with " + std::to_string(i + 1) + " types is not found"); break; }
            bool ok = true;
            for (int k = 0; k <= i and ok; ++k) {
               auto sel = ovl.get()[*types[std::size_t(k)]];
               rep.count("transitions");
               if (not sel.is_valid()) { hfail("C07:select:declared-type-not-found", hw, "type #" + std::to_string(k) + " of " + std::to_string(i + 1) + " entered under one name selects nothing"); ok = false; }
               else if (&sel.get() != first[std::size_t(k)]) { hfail("C07:select:not-first-declaration", hw, "type #" + std::to_string(k) + " of " + std::to_string(i + 1) + " selects another declaration"); ok = false; }
            }
            if (not ok) break;
            if (scope.size() != std::size_t(i + 1)) { hfail("C07:elements:size", hw, "the scope does not list every declaration"); break; }
         }
         if (int(first.size()) != N) continue;
         // second round, descending: each is a redeclaration
         for (int k = N - 1; k >= 0; --k) {
            const ipr::Decl* d = kind == 1 ? static_cast<const ipr::Decl*>(region->declare_fun(name, *static_cast<const ipr::Function*>(types[std::size_t(k)])))
                                 : kind == 0 ? static_cast<const ipr::Decl*>(region->declare_var(name, *types[std::size_t(k)])) : static_cast<const ipr::Decl*>(region->declare_field(name, *types[std::size_t(k)]));
            rep.count("transitions");
            bool bad = false;
            try {
               if (&d->master() != first[std::size_t(k)]) { hfail("C07:master:not-first-declaration", hw, "redeclaring type #" + std::to_string(k) + " of " + std::to_string(N) + " under one name does not join the first declaration"); bad = true; }
               else if (d->decl_set().size() != 2 or first[std::size_t(k)]->decl_set().size() != 2) { hfail("C07:decl-set:size", hw, "the declaration-set of type #" + std::to_string(k) + " of " + std::to_string(N) + " does not hold both declarations"); bad = true; }
               auto sel = scope[name].get()[*types[std::size_t(k)]];
               if (not sel.is_valid() or &sel.get() != first[std::size_t(k)]) { hfail("C07:select:not-first-declaration", hw, "after a redeclaration, selecting type #" + std::to_string(k) + " does not yield the first declaration"); bad = true; }
            }
            catch (const std::exception& e) { hfail("C07:master:refused", hw, std::string("master()/decl_set() refused: ") + e.what()); bad = true; }
            if (bad) break;
         }
         rep.count("traces");
      }
      // parameter lists whose members repeat a name (unnamed parameters all carry the unnamed identifier): every sequence of
      // <= 4 additions over 2 names x 2 types; each addition is a member of its own
      for (int len = 1; len <= 4; ++len)
         for (int code = 0; code < (1 << (2 * len)); ++code) {
            ipr::impl::Lexicon lex;
            ipr::impl::Translation_unit unit{ lex };
            auto* map = lex.make_mapping(*unit.global_region(), ipr::Mapping_level{ 1 });
            const ipr::Name* nm[2] = { &lex.get_identifier(u8""), &lex.get_identifier(u8"p") };
            const ipr::Type* ty[2] = { &lex.int_type(), &lex.double_type() };
            HWitness rw;
            rw.container = "parameter-list(repeated-names)";
            std::vector<const ipr::Parameter*> made;
            std::vector<const ipr::Type*> types;
            for (int i = 0; i < len; ++i) {
               const int n = (code >> (2 * i)) & 1, t = (code >> (2 * i + 1)) & 1;
               rw.ops.push_back(n * 2 + t);
               rw.text += std::string(n ? "p" : "<unnamed>") + ":t" + std::to_string(t) + " ";
               made.push_back(map->param(*nm[n], *ty[t]));
               types.push_back(ty[t]);
               rep.count("transitions"); rep.count("states");
            }
            const ipr::Parameter_list& pl = map->parameters();
            if (pl.size() != std::size_t(len)) { hfail("C07:parameter-list:size", rw, "a parameter list given " + std::to_string(len) + " parameters (some sharing a name) lists " + std::to_string(pl.size())); continue; }
            std::size_t i = 0;
            for (auto& p : pl.elements()) {
               if (&p != made[i]) { hfail("C07:parameter-list:order", rw, "parameter #" + std::to_string(i) + " is not the one returned when it was added"); break; }
               if (std::size_t(p.position()) != i) hfail("C07:parameter-list:position", rw, "parameter #" + std::to_string(i) + " reports position " + std::to_string(std::size_t(p.position())));
               if (&p.type() != types[i]) hfail("C07:parameter-list:type", rw, "parameter #" + std::to_string(i) + " does not report its type");
               if (&p.master() != static_cast<const ipr::Decl*>(&p) or p.decl_set().size() != 1) hfail("C07:parameter-list:decl-set-not-singleton", rw, "a parameter is not its own singleton declaration-set");
               if (not pl.region().bindings()[p.name()].is_valid()) hfail("C07:parameter-list:lookup-not-found", rw, "the name of parameter #" + std::to_string(i) + " is not found in the list's scope");
               ++i;
            }
            for (std::size_t a = 0; a < made.size(); ++a) for (std::size_t b = a + 1; b < made.size(); ++b) if (made[a] == made[b]) hfail("C07:parameter-list:order", rw, "two additions returned the same parameter");
            if (auto prod = ipr::util::view<ipr::Product>(pl.type())) { if (prod->size() != std::size_t(len)) hfail("C07:parameter-list:type-size", rw, "the list's type has the wrong number of components"); }
            rep.count("traces");
         }
      // long member lists
      {
         ipr::impl::Lexicon lex;
         ipr::impl::Translation_unit unit{ lex };
         auto& region = *unit.global_region();
         hw.container = "long-member-list";
         hw.ops = { long_list };
         hw.text = std::to_string(long_list) + " members";
         auto nm = [&](int i) -> const ipr::Name& { return lex.get_identifier(std::u8string(u8"p") + char8_t('a' + i % 26) + char8_t('a' + i / 26 % 26) + char8_t('a' + i / 676 % 26) + char8_t('a' + i / 17576 % 26)); };
         auto* map = lex.make_mapping(region, ipr::Mapping_level{ 1 });
         auto* en = lex.make_enum(region, ipr::Enum::Kind::Legacy);
         std::vector<const ipr::Parameter*> ps;
         std::vector<const ipr::Enumerator*> es;
         for (int i = 0; i < long_list; ++i) { ps.push_back(map->param(nm(i), lex.int_type())); es.push_back(en->add_member(nm(i))); }
         const ipr::Scope& psc = static_cast<const ipr::Mapping&>(*map).parameters().region().bindings();
         const ipr::Scope& esc = static_cast<const ipr::Enum&>(*en).region().bindings();
         for (int i = 0; i < long_list; ++i) {
            rep.count("transitions", 2);
            if (std::size_t(ps[std::size_t(i)]->position()) != std::size_t(i)) { hfail("C07:parameter-list:position", hw, "parameter #" + std::to_string(i) + " reports position " + std::to_string(std::size_t(ps[std::size_t(i)]->position()))); break; }
            if (std::size_t(es[std::size_t(i)]->position()) != std::size_t(i)) { hfail("C07:enumeration:position", hw, "enumerator #" + std::to_string(i) + " reports position " + std::to_string(std::size_t(es[std::size_t(i)]->position()))); break; }
            if (i % 97 == 0 or i + 1 == long_list) {
               auto o = psc[nm(i)];
               if (not o.is_valid() or not o.get()[lex.int_type()].is_valid() or &o.get()[lex.int_type()].get() != static_cast<const ipr::Decl*>(ps[std::size_t(i)])) { hfail("C07:parameter-list:lookup-not-found", hw, "parameter #" + std::to_string(i) + " is not found by name and type"); break; }
               auto q = esc[nm(i)];
               if (not q.is_valid()) { hfail("C07:enumeration:lookup-not-found", hw, "enumerator #" + std::to_string(i) + " is not found by name"); break; }
            }
         }
         rep.count("states", 2LL * long_list);
         rep.count("traces");
      }
   }

   // ---- refused declarations ----
   // make_alias takes its type from the initializer; an initializer without a type is refused (logic_error).  A refused
   // declaration was not entered: every history of <= 4 steps over {var a:int, alias a = <untyped> (refused), alias b =
   // <untyped> (refused), alias a = 1} leaves the scope exactly as the entered declarations alone would.
   void refused_declarations()
   {
      for (int len = 1; len <= 4; ++len)
         for (int code = 0; code < (1 << (2 * len)); ++code) {
            ipr::impl::Lexicon lex;
            ipr::impl::Translation_unit unit{ lex };
            auto* region = unit.global_region()->make_subregion();
            ipr::impl::Scope& sc = region->scope;
            const ipr::Scope& scope = sc;
            const ipr::Name* nm[2] = { &lex.get_identifier(u8"a"), &lex.get_identifier(u8"b") };
            HWitness hw;
            hw.container = "refused-declaration";
            std::vector<std::pair<int, const ipr::Decl*>> entered;          // (name index, declaration)
            bool stop = false;
            for (int i = 0; i < len and not stop; ++i) {
               const int op = (code >> (2 * i)) & 3;
               hw.ops.push_back(op);
               static const char* const opn[] = { "var a:int", "alias a=<untyped> (refused)", "alias b=<untyped> (refused)", "alias a=1" };
               hw.text += std::string(opn[op]) + "; ";
               rep.count("transitions"); rep.count("states");
               try {
                  if (op == 0) entered.push_back({ 0, sc.make_var(*nm[0], lex.int_type()) });
                  else if (op == 3) entered.push_back({ 0, sc.make_alias(*nm[0], *lex.make_literal(lex.int_type(), u8"1")) });
                  else { (void) sc.make_alias(*nm[op - 1], *lex.make_id_expr(lex.get_identifier(u8"x"))); hfail("C07:refused-declaration:accepted", hw, "an alias whose initializer has no type was accepted"); stop = true; }
               }
               catch (const std::logic_error&) { if (op == 0 or op == 3) { hfail("C07:refused-declaration:valid-refused", hw, "a valid declaration was refused after an earlier refused one"); stop = true; } }
               if (stop) break;
               if (scope.size() != entered.size()) { hfail("C07:refused-declaration:elements", hw, "the scope lists " + std::to_string(scope.size()) + " declarations, " + std::to_string(entered.size()) + " were entered"); break; }
               for (int n = 0; n < 2; ++n) {
                  const bool declared = std::any_of(entered.begin(), entered.end(), [&](auto& e) { return e.first == n; });
                  auto ovl = scope[*nm[n]];
                  rep.count("transitions");
                  if (ovl.is_valid() != declared) { hfail(declared ? "C07:lookup:declared-name-not-found" : "C07:lookup:undeclared-name-found", hw, std::string("looking up '") + (n ? "b" : "a") + "' yields " + (ovl.is_valid() ? "an overload set although no declaration of that name was entered (only a refused one)" : "nothing")); stop = true; break; }
                  if (declared) {
                     auto sel = ovl.get()[lex.int_type()];
                     const ipr::Decl* first = nullptr;
                     for (auto& e : entered) if (e.first == n) { first = e.second; break; }
                     if (not sel.is_valid() or &sel.get() != first) { hfail("C07:select:not-first-declaration", hw, "after a refused declaration, selecting by type does not yield the first declaration entered"); stop = true; break; }
                  }
               }
            }
            rep.count("traces");
         }
   }

int main(int argc, char** argv)
{
   opt = vf::parse_options(argc, argv);
   vf::install_crash_handler(opt, "C07");
   vf::crash_describe = describe_current;
   if (not opt.replay.empty()) {
      verbose = true;
      auto text = vf::slurp(opt.replay);
      auto ops = vf::json_int_array(text, "ops");
      if (text.find("\"refused-declaration\"") != std::string::npos) { std::printf("replay C07: refused declarations\n"); refused_declarations(); }
      else if (text.find("\"wide-overload-set\"") != std::string::npos or text.find("\"long-member-list\"") != std::string::npos) {
         std::printf("replay C07: wide overload sets / long member lists (%lld)\n", ops.empty() ? 0 : ops[0]);
         wide(40, ops.empty() ? 300 : int(std::max<long long>(300, ops[0])));
      }
      else if (text.find("\"container\"") != std::string::npos) {
         std::printf("replay C07: the homogeneous-container sweep is re-run in full\n");
         opt.shards = 1;
         homogeneous(5);
      }
      else {
         Hist h{ int(vf::json_int(text, "assign")), std::vector<int>(ops.begin(), ops.end()), unsigned(vf::json_int(text, "observe")), int(vf::json_int(text, "twin")) };
         std::printf("replay C07: %s\n", h.text().c_str());
         run(h);
      }
      for (auto& [k, v] : rep.viols) std::printf("violated: %s  (%s)\n", k.c_str(), v.what.c_str());
      return rep.viols.empty() ? 0 : 1;
   }
   const bool deep = opt.thorough();
   homogeneous(5);
   if (opt.shard == 0) wide(12, 300);
   if (opt.shard == 2 % opt.shards) refused_declarations();
   if (opt.shard == 1 % opt.shards) wide(deep ? 200 : 40, deep ? 70000 : 1100);
   observe_depth = deep ? 7 : 5;
   enumerate(deep ? 8 : 6);
   if (opt.shard == 0) {
      rep.info("bounds", vf::JObj{}.num("max_declaration_sequence_length", deep ? 8 : 6).num("name_type_pairs", 9).num("kind_assignments", 4)
                            .str("homogeneous", "all arrangements of <=5 of 5 names x 3 types (parameter lists), names only (enumerations), <=4 of 4 base classes, 0..3 handlers").done());
      rep.sample(vf::JObj{}.str("history", Hist{ 1, { 0, 4, 0, 8, 0 }, 0u }.text()).str("checked", "elements order, product type, lookup of 4 names, selection by 3+1 types per name, name/type/category/master/decl_set of each declaration").done());
      rep.sample(vf::JObj{}.str("history", Hist{ 3, { 2, 2, 5, 2 }, 2u }.text()).done());
   }
   rep.write(opt);
   return 0;
}
