// C04 — names and atoms are unified; a spelling has a single Identifier everywhere.
// Same exploration scheme as C01 (all request histories up to a depth bound, fresh Lexicon per history, several
// address personalities, key->node reference model), over the name and atom constructors.  In every final state two
// extra invariants are evaluated: (i) all Identifier nodes reachable through the public routes with equal spelling are
// one node; (ii) operator== on Logogram / Linkage / Calling_convention values holds exactly for equal spellings.
#include <functional>
#include <map>
#include <string>
#include <unordered_map>
#include <vector>

#include <ipr/impl>

#include "envctl.hpp"
#include "report.hpp"

namespace {
   vf::Report rep;
   vf::Options opt;
   bool verbose = false;
   using U8 = std::u8string;

   enum Op {
      IdView, IdString, OpView, OpString, Suffix, Conversion, Ctor, Dtor, Guide, TemplateId, Logo, Symbol, Label, This,
      LiteralGet, LiteralMakeView, LiteralMakeString, LinkView, LinkString, Conv, NOPS
   };
   const char* op_name[] = {
      "identifier(view)", "identifier(String)", "operator(view)", "operator(String)", "suffix", "conversion", "ctor_name",
      "dtor_name", "guide_name", "template_id", "logogram", "symbol", "label", "this", "get_literal", "make_literal(view)",
      "make_literal(String)", "linkage(view)", "linkage(String)", "calling_convention",
   };
   // constructor family used in violation keys (overloads of one constructor share a family)
   const char* family[] = {
      "identifier", "identifier", "operator", "operator", "suffix", "conversion", "ctor_name", "dtor_name", "guide_name",
      "template_id", "logogram", "symbol", "label", "this", "literal", "literal", "literal", "linkage", "linkage",
      "calling_convention",
   };

   const char8_t* const words[] = { u8"a", u8"b", u8"", u8"int", u8"default", u8"this", u8"C", u8"C++", u8"Java", u8"+" };
   constexpr int NW = 10;
   std::string wn(int i) { return std::string("\"") + reinterpret_cast<const char*>(words[i]) + "\""; }

   struct Req { int op; int a = 0, b = 0; };

   struct Info { std::string key; const void* addr = nullptr; };

   enum Kind { KIdentifier, KName, KOther, KLogo, KLinkage, KConv };

   // The second (or transient) Lexicon of an execution is not byte-for-byte the twin of the first: it starts by interning a word of its
   // own, so that whatever it writes lands at other offsets than the first one's (two Lexicons sharing storage they should not
   // share overwrite each other with DIFFERENT bytes, not with the same ones).
   bool other_world = false;
   struct Salted { explicit Salted(ipr::impl::Lexicon& l) { if (other_world) { (void) l.get_identifier(u8"the-other-lexicon-was-here"); (void) l.get_string(u8"0123456789-other"); } } };
   struct World {
      ipr::impl::Lexicon lex;
      Salted salted{ lex };
      ipr::impl::Translation_unit unit{ lex };
      std::vector<const ipr::Type*> ty;         std::vector<int> ty_mid;         // int, char, C, void
      std::vector<const ipr::Identifier*> id;   std::vector<int> id_mid;         // identifier results
      std::vector<const ipr::Name*> nm;         std::vector<int> nm_mid;         // any name usable for a symbol
      std::vector<const ipr::Template*> tm;
      std::vector<const ipr::Expr*> ex;
      std::vector<const ipr::Expr_list*> xl;
      // values for the equality invariant
      std::vector<std::pair<const ipr::Logogram*, U8>> logos;
      std::vector<std::pair<const ipr::Linkage*, U8>> links;
      std::vector<std::pair<const ipr::Calling_convention*, U8>> convs;
      // every Identifier reachable through a public route: (node, route)
      std::vector<std::pair<const ipr::Identifier*, std::string>> idents;

      std::map<std::string, int> mid_of_key;
      std::vector<Info> info;
      std::unordered_map<const void*, int> mid_of_addr;
      std::vector<std::pair<Req, int>> issued;
      int n_foreign = 0;
      std::string trace;
      bool failed = false;
      std::string fail_key, fail_what;

      int foreign(const void* addr, const std::string& key)
      {
         int mid = int(info.size());
         info.push_back(Info{ key, addr });
         mid_of_key[key] = mid;
         mid_of_addr[addr] = mid;
         return mid;
      }

      void reach(const ipr::Name& n, const std::string& route)
      {
         if (auto i = ipr::util::view<ipr::Identifier>(n)) idents.push_back({ i, route });
      }

      World()
      {
         const ipr::Lexicon& l = lex;
         auto add_type = [&](const ipr::Type& t, const char* n) { ty.push_back(&t); ty_mid.push_back(foreign(static_cast<const ipr::Node*>(&t), std::string("type:") + n)); };
         add_type(l.int_type(), "int");
         add_type(l.char_type(), "char");
         auto* c = lex.make_class(*unit.global_region());
         add_type(*c, "C");
         add_type(l.void_type(), "void");
         // the statically known nodes a spelling must lead to
         foreign(static_cast<const ipr::Node*>(&l.default_value()), "const:default");
         foreign(&l.c_linkage(), "link:C");
         foreign(&l.cxx_linkage(), "link:C++");
         links.push_back({ &l.c_linkage(), u8"C" });
         links.push_back({ &l.cxx_linkage(), u8"C++" });
         // names of the built-ins and constants: identifiers reachable without asking for them
         for (auto t : { &l.void_type(), &l.bool_type(), &l.char_type(), &l.schar_type(), &l.uchar_type(), &l.wchar_t_type(),
                         &l.char8_t_type(), &l.char16_t_type(), &l.char32_t_type(), &l.short_type(), &l.ushort_type(), &l.int_type(),
                         &l.uint_type(), &l.long_type(), &l.ulong_type(), &l.long_long_type(), &l.ulong_long_type(), &l.float_type(),
                         &l.double_type(), &l.long_double_type(), &l.ellipsis_type(), &l.typename_type(), &l.class_type(),
                         &l.union_type(), &l.enum_type(), &l.namespace_type() })
            reach(t->name(), "name of a built-in type");
         for (auto s : { &l.false_value(), &l.true_value(), &l.nullptr_value(), &l.default_value(), &l.delete_value() })
            reach(s->name(), "name of a symbolic constant");
         ex.push_back(lex.make_id_expr(lex.get_identifier(u8"tmpl1")));
         ex.push_back(lex.make_id_expr(lex.get_identifier(u8"tmpl2")));
         xl.push_back(lex.make_expr_list());
         auto* l1 = lex.make_expr_list();
         l1->push_back(lex.make_literal(l.int_type(), u8"1"));
         xl.push_back(l1);
         ipr::impl::Warehouse<ipr::Type> w;
         w.push_back(l.typename_type());
         auto& fa = lex.get_forall(lex.get_product(w), l.class_type());
         tm.push_back(unit.global_region()->declare_primary_template(lex.get_identifier(u8"V"), fa));
         tm.push_back(unit.global_region()->declare_primary_template(lex.get_identifier(u8"W"), fa));
         n_foreign = int(info.size());
         // common prefix of every history: two identifiers to build on
         apply(Req{ IdView, 0 });
         apply(Req{ IdString, 5 });       // "this"
         trace.clear();
      }

      std::string idn(int i) const { return "I#" + std::to_string(id_mid[i]); }
      std::string nmn(int i) const { return "N#" + std::to_string(nm_mid[i]); }
      static std::string tn(int i) { return i == 0 ? "int" : i == 1 ? "char" : i == 2 ? "C" : "void"; }

      std::string render(const Req& r) const
      {
         std::string s = op_name[r.op];
         switch (r.op) {
         case IdView: case IdString: case OpView: case OpString: case Logo: case LinkView: case LinkString: case Conv: return s + "(" + wn(r.a) + ")";
         case Suffix: return s + "(" + idn(r.a) + ")";
         case Conversion: case Ctor: case Dtor: case This: return s + "(" + tn(r.a) + ")";
         case Guide: return s + "(template" + std::to_string(r.a) + ")";
         case TemplateId: return s + "(expr" + std::to_string(r.a) + ", list" + std::to_string(r.b) + ")";
         case Symbol: return s + "(" + nmn(r.a) + ", " + tn(r.b) + ")";
         case Label: return s + "(" + idn(r.a) + ")";
         case LiteralGet: case LiteralMakeView: case LiteralMakeString: return s + "(" + tn(r.a) + ", " + wn(r.b) + ")";
         }
         return s;
      }

      int this_id_mid() const { auto it = mid_of_key.find("id:this"); return it == mid_of_key.end() ? -1 : it->second; }
      const U8& spelling_of_id(int idx) const { static U8 tmp; tmp = U8(id[idx]->string().characters()); return tmp; }

      std::string key(const Req& r) const
      {
         auto W = [&](int i) { return std::string(reinterpret_cast<const char*>(words[i])); };
         switch (r.op) {
         case IdView: case IdString: return "id:" + W(r.a);
         case OpView: case OpString: return "op:" + W(r.a);
         case Suffix: return "suf:" + std::to_string(id_mid[r.a]);
         case Conversion: return "conv:" + std::to_string(ty_mid[r.a]);
         case Ctor: return "ctor:" + std::to_string(ty_mid[r.a]);
         case Dtor: return "dtor:" + std::to_string(ty_mid[r.a]);
         case Guide: return "guide:" + std::to_string(r.a);
         case TemplateId: return "tid:" + std::to_string(r.a) + ":" + std::to_string(r.b);
         case Logo: return "logo:" + W(r.a);
         case Symbol: return "sym:" + std::to_string(nm_mid[r.a]) + ":" + std::to_string(ty_mid[r.b]);
         case Label:
            if (spelling_of_id(r.a) == u8"default") return "const:default";       // documented: the label of `default:` is default_value()
            return "sym:" + std::to_string(id_mid[r.a]) + ":" + std::to_string(ty_mid[3]);     // a label is the symbol (identifier, void)
         case This: return "sym:" + std::to_string(this_id_mid()) + ":" + std::to_string(ty_mid[r.a]);
         case LiteralGet: case LiteralMakeView: case LiteralMakeString: return "lit:" + std::to_string(ty_mid[r.a]) + ":" + W(r.b);
         case LinkView: case LinkString: return "link:" + W(r.a);
         case Conv: return "cc:" + W(r.a);
         }
         return "?";
      }

      struct Result { const void* addr; Kind kind; const ipr::Identifier* ident = nullptr; const ipr::Name* name = nullptr; };

      Result call(const Req& r)
      {
         auto node = [](const auto& n) { return static_cast<const void*>(static_cast<const ipr::Node*>(&n)); };
         switch (r.op) {
         case IdView: { auto& n = lex.get_identifier(ipr::util::word_view(words[r.a])); return { node(n), KIdentifier, &n, &n }; }
         case IdString: { auto& n = lex.get_identifier(lex.get_string(words[r.a])); return { node(n), KIdentifier, &n, &n }; }
         case OpView: { auto& n = lex.get_operator(ipr::util::word_view(words[r.a])); return { node(n), KName, nullptr, &n }; }
         case OpString: { auto& n = lex.get_operator(lex.get_string(words[r.a])); return { node(n), KName, nullptr, &n }; }
         case Suffix: { auto& n = lex.get_suffix(*id[r.a]); reach(n.name(), "Suffix::name"); return { node(n), KName, nullptr, &n }; }
         case Conversion: { auto& n = lex.get_conversion(*ty[r.a]); return { node(n), KName, nullptr, &n }; }
         case Ctor: { auto& n = lex.get_ctor_name(*ty[r.a]); return { node(n), KName, nullptr, &n }; }
         case Dtor: { auto& n = lex.get_dtor_name(*ty[r.a]); return { node(n), KName, nullptr, &n }; }
         case Guide: { auto& n = lex.get_guide_name(*tm[r.a]); return { node(n), KName, nullptr, &n }; }
         case TemplateId: { auto& n = lex.get_template_id(*ex[r.a], *xl[r.b]); return { node(n), KName, nullptr, &n }; }
         case Logo: {
            auto& g = lex.get_logogram(lex.get_string(words[r.a]));
            logos.push_back({ &g, U8(words[r.a]) });
            return { static_cast<const void*>(&g), KLogo };
         }
         case Symbol: { auto& n = lex.get_symbol(*nm[r.a], *ty[r.b]); reach(n.name(), "Symbol::name"); return { node(n), KOther }; }
         case Label: { auto& n = lex.get_label(*id[r.a]); reach(n.name(), "name of a label"); return { node(n), KOther }; }
         case This: { auto& n = lex.get_this(*ty[r.a]); reach(n.name(), "name of `this`"); return { node(n), KOther }; }
         case LiteralGet: { auto& n = lex.get_literal(*ty[r.a], ipr::util::word_view(words[r.b])); return { node(n), KOther }; }
         case LiteralMakeView: { auto* n = lex.make_literal(*ty[r.a], ipr::util::word_view(words[r.b])); return { node(*n), KOther }; }
         case LiteralMakeString: { auto* n = lex.make_literal(*ty[r.a], lex.get_string(words[r.b])); return { node(*n), KOther }; }
         case LinkView: { auto& k = lex.get_linkage(ipr::util::word_view(words[r.a])); links.push_back({ &k, U8(words[r.a]) }); return { static_cast<const void*>(&k), KLinkage }; }
         case LinkString: { auto& k = lex.get_linkage(lex.get_string(words[r.a])); links.push_back({ &k, U8(words[r.a]) }); return { static_cast<const void*>(&k), KLinkage }; }
         case Conv: { auto& k = lex.get_calling_convention(words[r.a]); convs.push_back({ &k, U8(words[r.a]) }); return { static_cast<const void*>(&k), KConv }; }
         }
         return { nullptr, KOther };
      }

      void fail(const std::string& k, const std::string& what)
      {
         if (failed) return;
         failed = true;
         fail_key = k;
         fail_what = what;
      }

      bool apply(const Req& r)
      {
         const std::string k = key(r);
         trace += render(r);
         Result got = call(r);
         rep.count("transitions");
         auto it = mid_of_key.find(k);
         int mid;
         if (it != mid_of_key.end()) {
            mid = it->second;
            if (info[mid].addr != got.addr) {
               fail(std::string("C04:") + family[r.op] + ":same-request-different-node",
                    "the request " + render(r) + " was answered with a node other than the one that stands for the same arguments (" + info[mid].key + ")");
               trace += " -> NEW NODE (expected #" + std::to_string(mid) + "); ";
               return false;
            }
         }
         else {
            auto other = mid_of_addr.find(got.addr);
            if (other != mid_of_addr.end()) {
               fail(std::string("C04:") + family[r.op] + ":different-request-same-node",
                    "the request " + render(r) + " was answered with the node of a different request (" + info[other->second].key + ")");
               trace += " -> ALIAS of #" + std::to_string(other->second) + "; ";
               return false;
            }
            mid = int(info.size());
            info.push_back(Info{ k, got.addr });
            mid_of_key[k] = mid;
            mid_of_addr[got.addr] = mid;
         }
         trace += " -> #" + std::to_string(mid) + "; ";
         issued.push_back({ r, mid });
         if (got.kind == KIdentifier) {
            id.push_back(got.ident); id_mid.push_back(mid);
            idents.push_back({ got.ident, "get_identifier" });
         }
         if (got.kind == KIdentifier or got.kind == KName) { nm.push_back(got.name); nm_mid.push_back(mid); }
         // read-back of the spelling / operand (the unified node is the right one, not just a stable one)
         if (got.kind == KIdentifier and got.ident->string().characters() != words[r.a])
            fail("C04:identifier:wrong-spelling", "get_identifier(" + wn(r.a) + ") returned an identifier spelled differently");
         return not failed;
      }

      void reissue_all()
      {
         const std::size_t n = issued.size();
         auto again = [&](std::size_t i) {
            auto [r, mid] = issued[i];
            Result got = call(r);
            rep.count("transitions");
            if (got.addr != info[mid].addr)
               fail(std::string("C04:") + family[r.op] + ":same-request-different-node",
                    "re-issuing " + render(r) + " at the end of the history returned a node other than the recorded one");
         };
         for (std::size_t i = 0; i < n and not failed; ++i) again(i);
         for (std::size_t i = n; i-- > 0 and not failed;) again(i);
         for (std::size_t i = 0; i < n and not failed; ++i) again((i + n / 2) % n);
      }

      // (i) one Identifier per spelling among everything reachable; (ii) value equality == spelling equality
      void state_invariants()
      {
         std::map<U8, std::pair<const ipr::Identifier*, std::string>> by_spelling;
         for (auto& [node, route] : idents) {
            U8 sp(node->string().characters());
            auto [it, fresh] = by_spelling.insert({ sp, { node, route } });
            rep.count("transitions");
            if (not fresh and it->second.first != node)
               fail("C04:identifier:two-nodes-one-spelling",
                    "two Identifier nodes spelled \"" + std::string(reinterpret_cast<const char*>(sp.c_str())) + "\" are reachable: one as " + it->second.second + ", one as " + route);
         }
         auto pairs = [&](auto& v, const char* what, auto eq) {
            for (std::size_t i = 0; i < v.size(); ++i)
               for (std::size_t j = 0; j < v.size(); ++j) {
                  bool e = eq(*v[i].first, *v[j].first), want = v[i].second == v[j].second;
                  rep.count("transitions");
                  if (e != want)
                     fail(std::string("C04:") + what + ":equality-disagrees-with-spelling",
                          std::string("operator== on two ") + what + " values spelled \"" + reinterpret_cast<const char*>(v[i].second.c_str()) + "\" and \""
                             + reinterpret_cast<const char*>(v[j].second.c_str()) + "\" is " + (e ? "true" : "false"));
                  if (e != eq(*v[j].first, *v[i].first)) fail(std::string("C04:") + what + ":equality-not-symmetric", "operator== is not symmetric");
               }
         };
         pairs(logos, "logogram", [](const ipr::Logogram& a, const ipr::Logogram& b) { return a == b; });
         pairs(links, "linkage", [](const ipr::Linkage& a, const ipr::Linkage& b) { return a == b; });
         pairs(convs, "calling_convention", [](const ipr::Calling_convention& a, const ipr::Calling_convention& b) { return a == b; });
      }
   };

   std::vector<Req> alphabet(const World& w, int breadth)
   {
      std::vector<Req> a;
      const std::vector<int> W = breadth > 0 ? std::vector<int>{ 0, 1, 2, 3, 4, 5, 6, 7, 8, 9 } : std::vector<int>{ 0, 3, 4, 6, 8 };
      for (int i : W) a.push_back({ IdView, i });
      for (int i : W) a.push_back({ IdString, i });
      for (int i : W) if (i == 0 or i == 9 or breadth > 0) a.push_back({ OpView, i });
      for (int i : W) if (i == 0 or i == 9 or breadth > 0) a.push_back({ OpString, i });
      for (int i = 0; i < int(w.id.size()); ++i) a.push_back({ Suffix, i });
      for (int t = 0; t < (breadth > 0 ? 3 : 2); ++t) { a.push_back({ Conversion, t }); a.push_back({ Ctor, t }); a.push_back({ Dtor, t }); }
      a.push_back({ Guide, 0 });
      a.push_back({ Guide, 1 });
      for (int e = 0; e < 2; ++e) for (int l = 0; l < 2; ++l) if (breadth > 0 or e == l) a.push_back({ TemplateId, e, l });
      for (int i : W) a.push_back({ Logo, i });
      for (int n = 0; n < int(w.nm.size()); ++n) for (int t : (breadth > 0 ? std::vector<int>{ 0, 1, 3 } : std::vector<int>{ 0, 3 })) a.push_back({ Symbol, n, t });
      for (int i = 0; i < int(w.id.size()); ++i) a.push_back({ Label, i });
      for (int t : { 0, 1, 3 }) if (breadth > 0 or t != 1) a.push_back({ This, t });
      for (int t : { 0, 1 }) for (int i : (breadth > 0 ? std::vector<int>{ 0, 1, 2, 3 } : std::vector<int>{ 0, 3 })) {
         a.push_back({ LiteralGet, t, i });
         if (breadth > 0 or t == 0) { a.push_back({ LiteralMakeView, t, i }); a.push_back({ LiteralMakeString, t, i }); }
      }
      for (int i : W) a.push_back({ LinkView, i });
      for (int i : W) if (breadth > 0 or i >= 6) a.push_back({ LinkString, i });
      for (int i : W) a.push_back({ Conv, i });
      return a;
   }

   const char* mode_name[] = { "ascending addresses", "descending addresses", "alternating addresses", "malloc" };

   struct Cur { const std::vector<int>* h = nullptr; int mode = 0; int breadth = 0; int twin = 0; } cur;
   void describe_current(char* buf, std::size_t n)
   {
      std::size_t used = std::snprintf(buf, n, "\"pass\":\"C04\",\"mode\":%d,\"breadth\":%d,\"twin\":%d,\"ops\":[", cur.mode, cur.breadth, cur.twin);
      if (cur.h) for (std::size_t i = 0; i < cur.h->size() and used + 16 < n; ++i) used += std::snprintf(buf + used, n - used, "%s%d", i ? "," : "", (*cur.h)[i]);
      std::snprintf(buf + used, n - used, "]");
   }

   // twin: 0 = one Lexicon; 1 = a second Lexicon is kept alive and performs every request right after the first one (each against
   // its own model); 2 = after every step a third Lexicon is created, performs the history so far, and is destroyed.
   const char* const twin_name[] = { "one Lexicon", "two Lexicons in lockstep", "a transient Lexicon after every step" };
   int run(const std::vector<int>& h, int mode, int breadth, bool leaf, int twin = 0)
   {
      using vf::env::Alloc;
      cur = { &h, mode, breadth, twin };
      const Alloc modes[] = { Alloc::Ascending, Alloc::Descending, Alloc::Alternating, Alloc::Malloc };
      vf::env::set_alloc(modes[mode]);
      int next = -1;
      {
         World w;
         std::unique_ptr<World> second;
         if (twin == 1) { other_world = true; second = std::make_unique<World>(); other_world = false; }
         std::string where;
         auto other_failed = [&](World& o, const char* who) {
            if (not o.failed or w.failed) return;
            w.failed = true; w.fail_key = o.fail_key; w.fail_what = o.fail_what; w.trace = o.trace; where = who;
         };
         bool ok = not w.failed;
         for (std::size_t i = 0; i < h.size() and ok; ++i) {
            auto a = alphabet(w, breadth);
            if (h[i] >= int(a.size())) { ok = false; w.fail("C04:harness:alphabet-index", "replay index out of range"); break; }
            ok = w.apply(a[h[i]]);
            if (leaf) rep.count("states");
            if (ok and second) {
               auto b = alphabet(*second, breadth);
               if (h[i] < int(b.size())) { second->apply(b[h[i]]); rep.count("transitions"); }
               other_failed(*second, " [observed on the second of two Lexicons performing the same requests in lockstep]");
               ok = not w.failed;
            }
            if (ok and twin == 2) {
               other_world = true;
               World t;
               other_world = false;
               for (std::size_t j = 0; j <= i and not t.failed; ++j) { auto b = alphabet(t, breadth); if (h[j] >= int(b.size())) break; t.apply(b[h[j]]); rep.count("transitions"); }
               if (not t.failed) t.state_invariants();
               other_failed(t, " [observed on a transient Lexicon that repeated the history so far]");
               ok = not w.failed;
            }
         }
         if (ok and leaf) { w.state_invariants(); if (not w.failed) w.reissue_all(); }
         if (ok and leaf and second) { second->state_invariants(); if (not second->failed) second->reissue_all(); other_failed(*second, " [observed on the second of two Lexicons performing the same requests in lockstep]"); }
         if (ok and leaf and twin == 2 and not w.failed) { w.reissue_all(); }
         if (w.failed and not where.empty()) w.fail_what += where;
         if (w.failed) {
            std::vector<long long> ops(h.begin(), h.end());
            rep.violation(w.fail_key, static_cast<long long>(h.size()) * 10 + mode, w.fail_what + " [" + mode_name[mode] + "; " + w.trace + "]",
                          vf::JObj{}.str("pass", "C04").num("mode", mode).num("breadth", breadth).num("twin", twin).raw("ops", vf::jarr(ops)).str("trace", w.trace).done());
            if (verbose) std::printf("  VIOLATION %s: %s\n    trace: %s\n", w.fail_key.c_str(), w.fail_what.c_str(), w.trace.c_str());
         }
         else {
            next = int(alphabet(w, breadth).size());
            if (verbose) std::printf("  trace: %s\n", w.trace.c_str());
         }
         if (leaf) {
            rep.count("traces");
            rep.member("outcomes", std::to_string(w.info.size()) + "/" + std::to_string(w.issued.size()));
            if (int(w.info.size()) - w.n_foreign < int(w.issued.size())) rep.count("distinct_nontrivial");
         }
      }
      vf::env::set_alloc(Alloc::Malloc);
      vf::env::arena_reset();
      cur.h = nullptr;
      return next;
   }

   void dfs(std::vector<int>& h, int depth, int mode, int breadth, int width, long long& counter, int twin = 0)
   {
      if (opt.expired()) return;
      for (int c = 0; c < width; ++c) {
         h.push_back(c);
         if (int(h.size()) == depth) {
            if (opt.mine(counter++)) run(h, mode, breadth, true, twin);
         }
         else {
            int w2 = run(h, mode, breadth, false);
            if (w2 > 0) dfs(h, depth, mode, breadth, w2, counter, twin);
         }
         h.pop_back();
         if (opt.expired()) return;
      }
   }

   void explore(int depth, int breadth, const std::vector<int>& modes, int twin = 0)
   {
      for (int mode : modes)
         for (int d = 1; d <= depth; ++d) {
            std::vector<int> h;
            long long counter = 0;
            int w0 = run(h, mode, breadth, false);
            dfs(h, d, mode, breadth, w0, counter, twin);
            if (opt.expired()) { rep.cap("deadline: breadth " + std::to_string(breadth) + " depth " + std::to_string(d) + " mode " + mode_name[mode]); return; }
            if (opt.shard == 0) rep.member("completed", "breadth=" + std::to_string(breadth) + " depth=" + std::to_string(d) + " " + mode_name[mode] + (twin ? std::string(", ") + twin_name[twin] : std::string()));
         }
   }

   // Long histories: N distinct keys per constructor, three insertion orders, every key requested again three times.
   void long_history(int mode, int N, int ins_order)
   {
      using vf::env::Alloc;
      const Alloc modes[] = { Alloc::Ascending, Alloc::Descending, Alloc::Alternating, Alloc::Malloc };
      vf::env::set_alloc(modes[mode]);
      {
         ipr::impl::Lexicon lex;
         ipr::impl::Translation_unit unit{ lex };
         cur = { nullptr, mode, 2 };
         auto bitrev = [&](int i) { int bits = 0; while ((1 << bits) < N) ++bits; int r = 0; for (int b = 0; b < bits; ++b) if (i & (1 << b)) r |= 1 << (bits - 1 - b); return r < N ? r : i; };
         auto order = [&](int ord, int i) { return ord == 0 ? i : ord == 1 ? N - 1 - i : bitrev(i); };
         auto word = [](int i, const char* pfx) { return U8(reinterpret_cast<const char8_t*>((std::string(pfx) + std::to_string(i * 7919 % 100003)).c_str())); };
         std::vector<const ipr::Type*> tower{ &lex.int_type() };
         for (int i = 1; i < N; ++i) tower.push_back(&lex.get_pointer(*tower.back()));
         std::vector<const ipr::Identifier*> ids;
         for (int i = 0; i < N; ++i) ids.push_back(&lex.get_identifier(word(i, "n")));
         auto node = [](const auto& n) { return static_cast<const void*>(static_cast<const ipr::Node*>(&n)); };
         struct Family { const char* name; std::function<const void*(int)> make; };
         std::vector<Family> fams = {
            { "identifier", [&](int i) { return node(lex.get_identifier(word(i, "id"))); } },
            { "operator", [&](int i) { return node(lex.get_operator(word(i, "@"))); } },
            { "suffix", [&](int i) { return node(lex.get_suffix(*ids[i])); } },
            { "conversion", [&](int i) { return node(lex.get_conversion(*tower[i])); } },
            { "ctor_name", [&](int i) { return node(lex.get_ctor_name(*tower[i])); } },
            { "dtor_name", [&](int i) { return node(lex.get_dtor_name(*tower[i])); } },
            { "logogram", [&](int i) { return static_cast<const void*>(&lex.get_logogram(lex.get_string(word(i, "lg")))); } },
            { "symbol", [&](int i) { return node(lex.get_symbol(*ids[i % 64], *tower[i / 64])); } },
            { "label", [&](int i) { return node(lex.get_label(*ids[i])); } },
            { "this", [&](int i) { return node(lex.get_this(*tower[i])); } },
            { "literal", [&](int i) { return node(lex.get_literal(*tower[i % 3], word(i / 3, ""))); } },
            { "linkage", [&](int i) { return static_cast<const void*>(&lex.get_linkage(word(i, "L"))); } },
            { "calling_convention", [&](int i) { return static_cast<const void*>(&lex.get_calling_convention(word(i, "cc"))); } },
         };
         for (auto& f : fams) {
            opt.kick();
            // the node returned by the FIRST request for each key is what every later request must return
            std::vector<const void*> canon(N);
            for (int i = 0; i < N; ++i) { canon[order(ins_order, i)] = f.make(order(ins_order, i)); rep.count("transitions"); }
            std::unordered_map<const void*, int> seen;
            bool bad = false;
            auto witness = vf::JObj{}.str("pass", "C04").num("mode", mode).num("breadth", 2).num("long", N).num("ins_order", ins_order).raw("ops", "[]").done();
            for (int i = 0; i < N and not bad; ++i) {
               auto [it, fresh] = seen.insert({ canon[i], i });
               if (not fresh) {
                  rep.violation(std::string("C04:") + f.name + ":different-request-same-node", 100000 + i,
                                std::string("long history: keys #") + std::to_string(it->second) + " and #" + std::to_string(i) + " of family " + f.name + " share a node [" + mode_name[mode] + "]", witness);
                  bad = true;
               }
            }
            for (int ord = 0; ord < 3 and not bad; ++ord)
               for (int i = 0; i < N and not bad; ++i) {
                  int k = order(ord, i);
                  rep.count("transitions");
                  if (f.make(k) != canon[k]) {
                     rep.violation(std::string("C04:") + f.name + ":same-request-different-node", 100000 + i,
                                   std::string("long history: key #") + std::to_string(k) + " of family " + f.name + " returned a new node after " + std::to_string(N) + " insertions [" + mode_name[mode] + "]", witness);
                     bad = true;
                  }
               }
            rep.count("states", N);
         }
         rep.count("traces");
      }
      vf::env::set_alloc(Alloc::Malloc);
      vf::env::arena_reset();
   }

   // Every reserved word, through both get_identifier overloads, twice: one node, and it is the node that names the
   // built-in / constant carrying that spelling.
   void reserved_sweep()
   {
      static const char8_t* const reserved[] = {
         u8"...", u8"=0", u8"C", u8"C++", u8"auto", u8"bool", u8"char", u8"char16_t", u8"char32_t", u8"char8_t", u8"class",
         u8"const", u8"consteval", u8"constexpr", u8"constinit", u8"default", u8"delete", u8"double", u8"enum", u8"explicit",
         u8"export", u8"extern", u8"false", u8"float", u8"friend", u8"inline", u8"int", u8"long", u8"long double",
         u8"long long", u8"mutable", u8"namespace", u8"nullptr", u8"private", u8"protected", u8"public", u8"register",
         u8"restrict", u8"short", u8"signed char", u8"static", u8"this", u8"thread_local", u8"true", u8"typedef",
         u8"typename", u8"union", u8"unsigned char", u8"unsigned int", u8"unsigned long", u8"unsigned long long",
         u8"unsigned short", u8"virtual", u8"void", u8"volatile", u8"wchar_t",
      };
      World w;
      std::map<U8, const ipr::Identifier*> carried;
      for (auto& [node, route] : w.idents) carried[U8(node->string().characters())] = node;
      carried[u8"this"] = ipr::util::view<ipr::Identifier>(w.lex.get_this(w.lex.int_type()).name());
      for (auto r : reserved) {
         const ipr::Identifier* got[4] = { &w.lex.get_identifier(ipr::util::word_view(r)), &w.lex.get_identifier(w.lex.get_string(r)),
                                           &w.lex.get_identifier(ipr::util::word_view(r)), &w.lex.get_identifier(w.lex.get_string(r)) };
         rep.count("transitions", 4);
         rep.count("states");
         std::string sp = reinterpret_cast<const char*>(r);
         auto witness = vf::JObj{}.str("pass", "C04").num("reserved", 1).raw("ops", "[]").str("word", sp).done();
         for (int i = 1; i < 4; ++i)
            if (got[i] != got[0]) rep.violation("C04:identifier:same-request-different-node", 0, "get_identifier(\"" + sp + "\") returned two nodes", witness);
         auto it = carried.find(U8(r));
         if (it != carried.end() and it->second != nullptr and it->second != got[0])
            rep.violation("C04:identifier:two-nodes-one-spelling", 0, "get_identifier(\"" + sp + "\") is not the Identifier that names the built-in entity spelled \"" + sp + "\"", witness);
         if (got[0]->string().characters() != r)
            rep.violation("C04:identifier:wrong-spelling", 0, "get_identifier(\"" + sp + "\") is spelled differently", witness);
      }
      rep.count("traces");
   }

   // "linkage / calling-convention / transfer values compare equal exactly when they are spelled the same": the finite space of
   // 5 linkage spellings x 6 convention spellings, every value obtained through every public route (word_view and String
   // overloads, the two-argument transfer, the from-linkage and from-convention shorthands, the function-type accessors),
   // twice, in two request orders; == and != on ALL pairs of linkages, of conventions and of transfers against the spelling model.
   void value_equalities(int order)
   {
      static const char8_t* const links[] = { u8"C++", u8"C", u8"Java", u8"", u8"C+" };
      static const char8_t* const convs[] = { u8"", u8"stdcall", u8"fastcall", u8"cdecl", u8"stdcal", u8"C" };
      constexpr int NL = 5, NC = 6;
      ipr::impl::Lexicon lex;
      struct LV { const ipr::Linkage* v; int l; std::string route; };
      struct CV { const ipr::Calling_convention* v; int c; std::string route; };
      struct TV { const ipr::Transfer* v; int l, c; std::string route; };
      std::vector<LV> ls; std::vector<CV> cs; std::vector<TV> ts;
      auto text = [](const char8_t* w) { return std::string(reinterpret_cast<const char*>(w)); };
      auto witness = [&](const std::string& what) { return vf::JObj{}.str("pass", "C04").num("values", 1).num("order", order).raw("ops", "[]").str("pair", what).done(); };
      for (int round = 0; round < 2; ++round)
         for (int a = 0; a < NL; ++a) {
            int l = order ? NL - 1 - a : a;
            ls.push_back({ &lex.get_linkage(ipr::util::word_view(links[l])), l, "get_linkage(view \"" + text(links[l]) + "\")" });
            ls.push_back({ &lex.get_linkage(lex.get_string(links[l])), l, "get_linkage(String \"" + text(links[l]) + "\")" });
            rep.count("transitions", 2);
         }
      ls.push_back({ &lex.c_linkage(), 1, "c_linkage()" }); ls.push_back({ &lex.cxx_linkage(), 0, "cxx_linkage()" });
      for (int round = 0; round < 2; ++round)
         for (int a = 0; a < NC; ++a) {
            int c = order ? NC - 1 - a : a;
            cs.push_back({ &lex.get_calling_convention(ipr::util::word_view(convs[c])), c, "get_calling_convention(view \"" + text(convs[c]) + "\")" });
            cs.push_back({ &lex.get_calling_convention(lex.get_string(convs[c]).characters()), c, "get_calling_convention(the interned spelling of \"" + text(convs[c]) + "\")" });
            rep.count("transitions", 2);
         }
      ipr::impl::Warehouse<ipr::Type> w1; w1.push_back(static_cast<const ipr::Lexicon&>(lex).int_type());
      auto& p1 = lex.get_product(w1);
      for (int round = 0; round < 2; ++round)
         for (int a = 0; a < NL * NC; ++a) {
            int k = order ? NL * NC - 1 - a : a, l = k / NC, c = k % NC;
            auto& lk = lex.get_linkage(links[l]); auto& cv = lex.get_calling_convention(convs[c]);
            auto& t = lex.get_transfer(lk, cv);
            std::string sp = "(\"" + text(links[l]) + "\", \"" + text(convs[c]) + "\")";
            ts.push_back({ &t, l, c, "get_transfer" + sp });
            if (c == 0) ts.push_back({ &lex.get_transfer_from_linkage(lk), l, 0, "get_transfer_from_linkage(\"" + text(links[l]) + "\")" });
            if (l == 0) ts.push_back({ &lex.get_transfer_from_convention(cv), 0, c, "get_transfer_from_convention(\"" + text(convs[c]) + "\")" });
            ts.push_back({ &lex.get_function(p1, static_cast<const ipr::Lexicon&>(lex).int_type(), t).transfer(), l, c, "get_function(.., " + sp + ").transfer()" });
            rep.count("transitions", 4);
            // components read back by spelling
            auto spelled = [](const ipr::Logogram& g) { return U8(g.what().characters()); };
            if (spelled(t.linkage().language()) != links[l] or spelled(t.convention().name()) != convs[c])
               rep.violation("C04:transfer:components", 0, "get_transfer" + sp + " reports a linkage or convention spelled differently", witness(sp));
         }
      ts.push_back({ &ipr::impl::cxx_transfer(), 0, 0, "cxx_transfer()" });
      for (auto& a : ls) for (auto& b : ls) {
         rep.count("states");
         bool expect = a.l == b.l;
         if ((*a.v == *b.v) != expect or (*a.v != *b.v) == expect)
            rep.violation(expect ? "C04:linkage:equal-spelling-compares-unequal" : "C04:linkage:different-spelling-compares-equal", 0, a.route + " vs " + b.route, witness(a.route + " / " + b.route));
         if (expect and a.v != b.v) rep.violation("C04:linkage:same-request-different-node", 0, a.route + " and " + b.route + " are two nodes", witness(a.route + " / " + b.route));
      }
      for (auto& a : cs) for (auto& b : cs) {
         rep.count("states");
         bool expect = a.c == b.c;
         if ((*a.v == *b.v) != expect or (*a.v != *b.v) == expect)
            rep.violation(expect ? "C04:convention:equal-spelling-compares-unequal" : "C04:convention:different-spelling-compares-equal", 0, a.route + " vs " + b.route, witness(a.route + " / " + b.route));
         if (expect and a.v != b.v) rep.violation("C04:convention:same-request-different-node", 0, a.route + " and " + b.route + " are two nodes", witness(a.route + " / " + b.route));
      }
      for (auto& a : ts) for (auto& b : ts) {
         rep.count("states");
         bool expect = a.l == b.l and a.c == b.c;
         if ((*a.v == *b.v) != expect or (*a.v != *b.v) == expect)
            rep.violation(expect ? "C04:transfer:equal-spelling-compares-unequal" : "C04:transfer:different-spelling-compares-equal", 0, a.route + " vs " + b.route, witness(a.route + " / " + b.route));
      }
      rep.count("traces");
   }
}

int main(int argc, char** argv)
{
   opt = vf::parse_options(argc, argv);
   vf::install_crash_handler(opt, "C04");
   vf::crash_describe = describe_current;
   if (not opt.replay.empty()) {
      verbose = true;
      auto text = vf::slurp(opt.replay);
      auto ops = vf::json_int_array(text, "ops");
      int mode = int(vf::json_int(text, "mode")), breadth = int(vf::json_int(text, "breadth"));
      std::printf("replay C04: %zu steps, %s, breadth %d\n", ops.size(), mode_name[mode], breadth);
      if (vf::json_int(text, "reserved") > 0) reserved_sweep();
      else if (vf::json_int(text, "values") > 0) value_equalities(int(vf::json_int(text, "order")));
      else if (vf::json_int(text, "long") > 0) long_history(mode, int(vf::json_int(text, "long")), int(vf::json_int(text, "ins_order")));
      else run(std::vector<int>(ops.begin(), ops.end()), mode, breadth, true, int(vf::json_int(text, "twin")));
      for (auto& [k, v] : rep.viols) std::printf("violated: %s  (%s)\n", k.c_str(), v.what.c_str());
      return rep.viols.empty() ? 0 : 1;
   }
   const bool deep = opt.thorough();
   if (opt.shard == 0) reserved_sweep();
   if (opt.shard == 2 % opt.shards) { value_equalities(0); value_equalities(1); }
   explore(deep ? 3 : 2, 1, { 0, 1, 2 });
   explore(deep ? 4 : 3, 0, { 0, 1, 2 });
   // more than one Lexicon: the compact alphabet again, with a second Lexicon in lockstep, and with a transient one after every step
   explore(deep ? 3 : 2, 0, { 3, 0 }, 1);
   explore(deep ? 3 : 2, 0, { 3, 0 }, 2);
   if (not opt.expired()) {
      int job = 0;
      for (int mode : { 0, 1, 2, 3 })
         for (int ord : { 0, 1, 2 })
            if (opt.mine(job++)) long_history(mode, deep ? 4096 : 1024, ord);
   }
   // volume: enough distinct spellings to take the string storage behind the identifiers through several pools; every
   // identifier must still be THE identifier of its spelling afterwards (one per spelling, spelling intact)
   if (opt.shard == 1 % opt.shards and not opt.expired()) {
      const int N = deep ? 200000 : 70000;
      ipr::impl::Lexicon lex;
      std::vector<const ipr::Identifier*> ids;
      auto spelled = [](int i) { std::u8string w = u8"identifier_"; for (int k = 0; k < 6; ++k) w += char8_t('a' + (i >> (4 * k)) % 16); w.append(std::size_t(i % 19), u8'_'); return w; };
      for (int i = 0; i < N; ++i) { ids.push_back(&lex.get_identifier(spelled(i))); rep.count("transitions"); }
      for (int i = 0; i < N; ++i) {
         auto w = spelled(i);
         rep.count("transitions");
         if (ids[std::size_t(i)]->string().characters() != std::u8string_view(w)) { rep.violation("C04:identifier:spelling-altered", N, "an Identifier obtained earlier no longer carries its spelling after " + std::to_string(N) + " distinct identifiers", vf::JObj{}.str("pass", "C04").num("volume", N).raw("ops", "[]").done()); break; }
         if (&lex.get_identifier(w) != ids[std::size_t(i)]) { rep.violation("C04:identifier:two-nodes-one-spelling", N, "asking again for identifier #" + std::to_string(i) + " of " + std::to_string(N) + " yields a second Identifier with that spelling", vf::JObj{}.str("pass", "C04").num("volume", N).raw("ops", "[]").done()); break; }
      }
      rep.count("states", N);
      rep.count("traces");
   }
   if (opt.shard == 0) {
      World w;
      rep.info("bounds", vf::JObj{}.num("full_alphabet_at_step_1", (long long) alphabet(w, 1).size()).num("compact_alphabet_at_step_1", (long long) alphabet(w, 0).size())
                            .num("depth_full", deep ? 3 : 2).num("depth_compact", deep ? 4 : 3).str("address_modes", "ascending, descending, alternating (+ malloc in long histories)")
                            .num("long_history_keys_per_family", deep ? 4096 : 1024).str("spellings", "a b \"\" int default this C C++ Java +").done());
      rep.sample(vf::JObj{}.str("history", "identifier(view)(\"int\") -> must be the name of int_type(); label(I#default) -> must be default_value()").done());
      rep.sample(vf::JObj{}.str("history", "symbol(N#a, void) ; label(I#a) -> same node; this(int) ; symbol(I#this, int) -> same node").done());
   }
   rep.write(opt);
   return 0;
}
