// C11 — qualified types are in normal form.
// For every unqualified type T of a pool and EVERY sequence of successive qualification requests with non-empty
// qualifier sets up to the bound (the complete space for that length), on a fresh Lexicon each: the chain result is
// the node of get_qualified(union, T), its main variant is T (never a Qualified), and an empty set is refused.
#include <string>
#include <vector>

#include <ipr/impl>

#include "envctl.hpp"
#include "report.hpp"

namespace {
   vf::Report rep;
   vf::Options opt;
   bool verbose = false;

   const char* type_names[] = { "int", "int*", "class C", "int[4]", "void(int)", "as_type(T)" };
   constexpr int NT = 6;

   struct World {
      ipr::impl::Lexicon lex;
      ipr::impl::Translation_unit unit{ lex };
      std::vector<const ipr::Type*> T;
      ipr::Qualifiers q[8];

      World()
      {
         T.push_back(&lex.int_type());
         T.push_back(&lex.get_pointer(lex.int_type()));
         auto* c = lex.make_class(*unit.global_region());
         c->id = &lex.get_identifier(u8"C");
         T.push_back(c);
         T.push_back(&lex.get_array(lex.int_type(), *lex.make_literal(lex.int_type(), u8"4")));
         ipr::impl::Warehouse<ipr::Type> w;
         w.push_back(lex.int_type());
         T.push_back(&lex.get_function(lex.get_product(w), lex.void_type()));
         T.push_back(&lex.get_as_type(*lex.make_id_expr(lex.get_identifier(u8"T"))));
         const ipr::Qualifiers b[3] = { lex.const_qualifier(), lex.volatile_qualifier(), lex.restrict_qualifier() };
         for (int m = 0; m < 8; ++m) {
            q[m] = ipr::Qualifiers{};
            for (int i = 0; i < 3; ++i)
               if (m & (1 << i)) q[m] |= b[i];
         }
      }
   };

   std::string mask_text(int m)
   {
      std::string s;
      if (m & 1) s += "c";
      if (m & 2) s += "v";
      if (m & 4) s += "r";
      return s.empty() ? "{}" : s;
   }

   struct Hist {
      int t;                       // index into the type pool
      std::vector<int> masks;      // successive qualification requests (1..7)
      int direct_first;            // request get_qualified(union,T) before the chain (1) or only after (0)
      int noise;                   // interleave unrelated constructions (1) or not (0)
      std::string text() const
      {
         std::string s = std::string(type_names[t]) + " <-";
         for (int m : masks) s += " " + mask_text(m);
         s += direct_first ? " [direct first]" : " [direct last]";
         if (noise) s += " [noise]";
         return s;
      }
      std::vector<long long> ops() const
      {
         std::vector<long long> o{ t, direct_first, noise };
         for (int m : masks) o.push_back(m);
         return o;
      }
   };

   void fail(const std::string& key, const Hist& h, const std::string& what)
   {
      rep.violation(key, static_cast<long long>(h.masks.size()) * 10 + h.noise * 2 + h.direct_first, what + " [" + h.text() + "]",
                    vf::JObj{}.str("pass", "C11").raw("ops", vf::jarr(h.ops())).str("history", h.text()).done());
      if (verbose) std::printf("  VIOLATION %s: %s\n", key.c_str(), what.c_str());
   }

   bool empty_refused(World& w, const ipr::Type& t, const Hist& h)
   {
      rep.count("transitions");
      try {
         (void) w.lex.get_qualified(ipr::Qualifiers{}, t);
      }
      catch (...) {
         return true;
      }
      fail("C11:empty-set-accepted", h, "get_qualified with an empty qualifier set returned a node instead of refusing");
      return false;
   }

   void check_node(World& w, const Hist& h, const ipr::Qualified& got, int uni, const char* stage)
   {
      const ipr::Type& base = *w.T[h.t];
      if (ipr::util::view<ipr::Qualified>(got.main_variant()) != nullptr)
         fail("C11:main-variant-is-qualified", h, std::string("the main variant of the ") + stage + " result is itself a Qualified");
      else if (&got.main_variant() != &base)
         fail("C11:main-variant-wrong", h, std::string("the main variant of the ") + stage + " result is not the innermost unqualified type");
      if (got.qualifiers() != w.q[uni])
         fail("C11:qualifiers-not-union", h, std::string("qualifiers() of the ") + stage + " result is not the union of the requested sets");
      if (got.qualifiers() == ipr::Qualifiers{})
         fail("C11:empty-qualifiers", h, "a Qualified node with an empty qualifier set exists");
   }

   void run(const Hist& h)
   {
      World w;
      const ipr::Type& base = *w.T[h.t];
      int uni_all = 0;
      for (int m : h.masks) uni_all |= m;
      const ipr::Qualified* direct = nullptr;
      if (h.direct_first) {
         direct = &w.lex.get_qualified(w.q[uni_all], base);
         rep.count("transitions");
      }
      empty_refused(w, base, h);
      const ipr::Type* cur = &base;
      int uni = 0;
      for (std::size_t i = 0; i < h.masks.size(); ++i) {
         if (h.noise) {
            (void) w.lex.get_pointer(*cur);
            (void) w.lex.get_qualified(w.q[h.masks[i]], *w.T[(h.t + 1) % NT]);
            (void) w.lex.get_reference(w.lex.get_qualified(w.q[7], *w.T[(h.t + 2) % NT]));
            rep.count("transitions", 4);
         }
         const ipr::Qualified& r = w.lex.get_qualified(w.q[h.masks[i]], *cur);
         rep.count("transitions");
         rep.count("states");
         uni |= h.masks[i];
         check_node(w, h, r, uni, "chain");
         // the node for the accumulated union, asked directly
         const ipr::Qualified& d = w.lex.get_qualified(w.q[uni], base);
         rep.count("transitions");
         if (&d != &r)
            fail("C11:chain-differs-from-direct", h, "qualifying step by step and qualifying once with the union give different nodes");
         empty_refused(w, r, h);
         // refusal changed nothing: asking again yields the same node
         if (&w.lex.get_qualified(w.q[h.masks[i]], *cur) != &r)
            fail("C11:not-idempotent", h, "the same request returned a different node the second time");
         cur = &r;
      }
      const ipr::Qualified& last = w.lex.get_qualified(w.q[uni_all], base);
      check_node(w, h, last, uni_all, "direct");
      if (direct != nullptr and direct != &last)
         fail("C11:direct-unstable", h, "the direct request returned different nodes before and after the chain");
      if (cur != &last)
         fail("C11:chain-differs-from-direct", h, "qualifying step by step and qualifying once with the union give different nodes");
      rep.count("traces");
      rep.member("outcomes", std::to_string(h.t) + ":" + std::to_string(uni_all) + ":" + std::to_string(h.masks.size()));
   }

   void enumerate(int depth)
   {
      long long idx = 0;
      for (int d = 1; d <= depth; ++d) {
         std::vector<int> m(d, 1);
         while (true) {
            for (int t = 0; t < NT; ++t)
               for (int df = 0; df < 2; ++df)
                  for (int nz = 0; nz < 2; ++nz)
                     if (opt.mine(idx++)) run(Hist{ t, m, df, nz });
            int i = d - 1;
            while (i >= 0 and ++m[i] == 8) m[i--] = 1;
            if (i < 0) break;
            if (opt.expired()) { rep.cap("deadline at depth " + std::to_string(d)); return; }
         }
         if (opt.shard == 0) rep.maxi("max_depth", d);
      }
   }
}

int main(int argc, char** argv)
{
   opt = vf::parse_options(argc, argv);
   vf::install_crash_handler(opt, "C11");
   if (not opt.replay.empty()) {
      verbose = true;
      auto ops = vf::json_int_array(vf::slurp(opt.replay), "ops");
      if (ops.size() < 4) { std::printf("bad replay file\n"); return 2; }
      Hist h{ int(ops[0]), {}, int(ops[1]), int(ops[2]) };
      for (std::size_t i = 3; i < ops.size(); ++i) h.masks.push_back(int(ops[i]));
      std::printf("replay C11: %s\n", h.text().c_str());
      run(h);
      for (auto& [k, v] : rep.viols) std::printf("violated: %s  (%s)\n", k.c_str(), v.what.c_str());
      return rep.viols.empty() ? 0 : 1;
   }
   const int depth = opt.thorough() ? 5 : 3;
   enumerate(depth);
   if (opt.shard == 0) {
      rep.info("bounds", vf::JObj{}.num("max_chain_length", depth).num("qualifier_sets", 7).num("base_types", NT)
                            .str("deviations", "direct request before/after the chain; unrelated constructions interleaved or not").done());
      rep.sample(vf::JObj{}.str("history", Hist{ 1, { 1, 2, 1 }, 0, 1 }.text()).str("checked", "each prefix result == get_qualified(union,T); main_variant()==T and not Qualified; empty set refused").done());
      rep.sample(vf::JObj{}.str("history", Hist{ 2, { 4, 3 }, 1, 0 }.text()).done());
   }
   rep.write(opt);
   return 0;
}
