// C11 — qualified types are in normal form.
// For every unqualified type T of a pool and EVERY sequence of successive qualification requests with non-empty
// qualifier sets up to the bound (the complete space for that length), on a fresh Lexicon each: the chain result is
// the node of get_qualified(union, T), its main variant is T (never a Qualified), and an empty set is refused.
#include <algorithm>
#include <set>
#include <string>
#include <vector>
#include <memory>

#include <ipr/impl>

#include "envctl.hpp"
#include "report.hpp"

namespace {
   vf::Report rep;
   vf::Options opt;
   bool verbose = false;

   const char* type_names[] = { "int", "int*", "class C", "int[4]", "void(int)", "as_type(T)" };
   constexpr int NT = 6;

   // The second (or transient) Lexicon of an execution is not byte-for-byte the twin of the first: it starts by interning a word of its
   // own, so that whatever it writes lands at other offsets than the first one's (two Lexicons sharing storage they should not
   // share overwrite each other with DIFFERENT bytes, not with the same ones).
   bool other_world = false;
   struct Salted { explicit Salted(ipr::impl::Lexicon& l) { if (other_world) { (void) l.get_identifier(u8"the-other-lexicon-was-here"); (void) l.get_string(u8"0123456789-other"); } } };
   struct World {
      ipr::impl::Lexicon lex;
      Salted salted{ lex };
      ipr::impl::Translation_unit unit{ lex };
      std::vector<const ipr::Type*> T;
      ipr::Qualifiers q[8];

      World()
      {
         T.push_back(&lex.int_type());
         T.push_back(&lex.get_pointer(lex.int_type()));
         auto* c = lex.make_class(*unit.global_region());
         c->id = &lex.get_identifier(u8"C");
         T.push_back(c);
         T.push_back(&lex.get_array(lex.int_type(), *lex.make_literal(lex.int_type(), u8"4")));
         ipr::impl::Warehouse<ipr::Type> w;
         w.push_back(lex.int_type());
         T.push_back(&lex.get_function(lex.get_product(w), lex.void_type()));
         T.push_back(&lex.get_as_type(*lex.make_id_expr(lex.get_identifier(u8"T"))));
         const ipr::Qualifiers b[3] = { lex.const_qualifier(), lex.volatile_qualifier(), lex.restrict_qualifier() };
         for (int m = 0; m < 8; ++m) {
            q[m] = ipr::Qualifiers{};
            for (int i = 0; i < 3; ++i)
               if (m & (1 << i)) q[m] |= b[i];
         }
      }
   };

   std::string mask_text(int m)
   {
      std::string s;
      if (m & 1) s += "c";
      if (m & 2) s += "v";
      if (m & 4) s += "r";
      return s.empty() ? "{}" : s;
   }

   struct Hist {
      int t;                       // index into the type pool
      std::vector<int> masks;      // successive qualification requests (1..7)
      int direct_first;            // request get_qualified(union,T) before the chain (1) or only after (0)
      int noise;                   // 0 nothing else happens; 1 unrelated constructions in between; 2 a second Lexicon, alive, makes every request of the
                                   // chain right before this one does; 3 before every step a transient Lexicon repeats the chain so far and dies
      std::string text() const
      {
         std::string s = std::string(type_names[t]) + " <-";
         for (int m : masks) s += " " + mask_text(m);
         s += direct_first ? " [direct first]" : " [direct last]";
         if (noise == 1) s += " [noise]";
         if (noise == 2) s += " [a second Lexicon makes each request first]";
         if (noise == 3) s += " [a transient Lexicon repeats the chain so far before each step]";
         return s;
      }
      std::vector<long long> ops() const
      {
         std::vector<long long> o{ t, direct_first, noise };
         for (int m : masks) o.push_back(m);
         return o;
      }
   };

   void fail(const std::string& key, const Hist& h, const std::string& what)
   {
      rep.violation(key, static_cast<long long>(h.masks.size()) * 10 + h.noise * 2 + h.direct_first, what + " [" + h.text() + "]",
                    vf::JObj{}.str("pass", "C11").raw("ops", vf::jarr(h.ops())).str("history", h.text()).done());
      if (verbose) std::printf("  VIOLATION %s: %s\n", key.c_str(), what.c_str());
   }

   bool empty_refused(World& w, const ipr::Type& t, const Hist& h)
   {
      rep.count("transitions");
      try {
         (void) w.lex.get_qualified(ipr::Qualifiers{}, t);
      }
      catch (...) {
         return true;
      }
      fail("C11:empty-set-accepted", h, "get_qualified with an empty qualifier set returned a node instead of refusing");
      return false;
   }

   void check_node(World& w, const Hist& h, const ipr::Qualified& got, int uni, const char* stage)
   {
      const ipr::Type& base = *w.T[h.t];
      if (ipr::util::view<ipr::Qualified>(got.main_variant()) != nullptr)
         fail("C11:main-variant-is-qualified", h, std::string("the main variant of the ") + stage + " result is itself a Qualified");
      else if (&got.main_variant() != &base)
         fail("C11:main-variant-wrong", h, std::string("the main variant of the ") + stage + " result is not the innermost unqualified type");
      if (got.qualifiers() != w.q[uni])
         fail("C11:qualifiers-not-union", h, std::string("qualifiers() of the ") + stage + " result is not the union of the requested sets");
      if (got.qualifiers() == ipr::Qualifiers{})
         fail("C11:empty-qualifiers", h, "a Qualified node with an empty qualifier set exists");
   }

   void run(const Hist& h)
   {
      vf::env::set_alloc(vf::env::Alloc((h.t + int(h.masks.size()) + h.noise) % 4));
      struct Reset { ~Reset() { vf::env::set_alloc(vf::env::Alloc::Malloc); vf::env::arena_reset(); } } reset;
      World w;
      const ipr::Type& base = *w.T[h.t];
      int uni_all = 0;
      for (int m : h.masks) uni_all |= m;
      const ipr::Qualified* direct = nullptr;
      if (h.direct_first) {
         direct = &w.lex.get_qualified(w.q[uni_all], base);
         rep.count("transitions");
      }
      empty_refused(w, base, h);
      const ipr::Type* cur = &base;
      int uni = 0;
      std::unique_ptr<World> second;
      const ipr::Type* second_cur = nullptr;
      if (h.noise == 2) { other_world = true; second = std::make_unique<World>(); other_world = false; second_cur = second->T[h.t]; }
      for (std::size_t i = 0; i < h.masks.size(); ++i) {
         if (h.noise == 2) { second_cur = &second->lex.get_qualified(second->q[h.masks[i]], *second_cur); rep.count("transitions"); }
         if (h.noise == 3) {
            other_world = true;
            World t;
            other_world = false;
            const ipr::Type* c = t.T[h.t];
            for (std::size_t j = 0; j <= i; ++j) { c = &t.lex.get_qualified(t.q[h.masks[j]], *c); rep.count("transitions"); }
         }
         if (h.noise == 1) {
            (void) w.lex.get_pointer(*cur);
            (void) w.lex.get_qualified(w.q[h.masks[i]], *w.T[(h.t + 1) % NT]);
            (void) w.lex.get_reference(w.lex.get_qualified(w.q[7], *w.T[(h.t + 2) % NT]));
            rep.count("transitions", 4);
         }
         const ipr::Qualified& r = w.lex.get_qualified(w.q[h.masks[i]], *cur);
         rep.count("transitions");
         rep.count("states");
         uni |= h.masks[i];
         check_node(w, h, r, uni, "chain");
         // the node for the accumulated union, asked directly
         const ipr::Qualified& d = w.lex.get_qualified(w.q[uni], base);
         rep.count("transitions");
         if (&d != &r)
            fail("C11:chain-differs-from-direct", h, "qualifying step by step and qualifying once with the union give different nodes");
         empty_refused(w, r, h);
         // refusal changed nothing: asking again yields the same node
         if (&w.lex.get_qualified(w.q[h.masks[i]], *cur) != &r)
            fail("C11:not-idempotent", h, "the same request returned a different node the second time");
         cur = &r;
      }
      const ipr::Qualified& last = w.lex.get_qualified(w.q[uni_all], base);
      check_node(w, h, last, uni_all, "direct");
      if (direct != nullptr and direct != &last)
         fail("C11:direct-unstable", h, "the direct request returned different nodes before and after the chain");
      if (cur != &last)
         fail("C11:chain-differs-from-direct", h, "qualifying step by step and qualifying once with the union give different nodes");
      // every qualifier set asked directly over the same T afterwards (incomparable sets share one lookup table with the
      // chain's results): each has its own node, the chain's unions are found again, and a second round finds all of them
      {
         std::vector<int> order;
         for (int m : h.masks) if (std::find(order.begin(), order.end(), m) == order.end()) order.push_back(m);
         for (int m = 7; m >= 1; --m) if (std::find(order.begin(), order.end(), m) == order.end()) order.push_back(m);
         const ipr::Qualified* node[8] = { };
         for (int round = 0; round < 2; ++round)
            for (int m : order) {
               const ipr::Qualified& r = w.lex.get_qualified(w.q[m], base);
               rep.count("transitions");
               if (node[m] == nullptr) { node[m] = &r; check_node(w, h, r, m, "direct"); }
               else if (node[m] != &r) fail("C11:direct-unstable", h, "asking again for " + mask_text(m) + " over the same type returned a different node");
               if (m == uni_all and &r != &last) fail("C11:direct-unstable", h, "the node of the union is not found again after other qualifier sets were requested over the same type");
            }
         for (int a = 1; a < 8; ++a) for (int b = a + 1; b < 8; ++b) if (node[a] == node[b]) fail("C11:different-sets-same-node", h, "two different qualifier sets over the same type share a node");
      }
      rep.count("traces");
      if (rep.samples.size() < rep.sample_cap and h.masks.size() >= 2) rep.sample(vf::JObj{}.str("history", h.text()).str("union", mask_text(uni_all)).done());
      rep.member("outcomes", std::to_string(h.t) + ":" + std::to_string(uni_all) + ":" + std::to_string(h.masks.size()));
   }

   // All 7! orders of asking for the seven qualifier sets directly over one type, each on a fresh Lexicon, then all again.
   void direct_orders()
   {
      std::vector<int> perm{ 1, 2, 3, 4, 5, 6, 7 };
      long long idx = 0;
      do {
         for (int t = 0; t < NT; t += 2) {
            if (not opt.mine(idx++)) continue;
            World w;
            Hist h{ t, perm, 0, 0 };
            const ipr::Qualified* node[8] = { };
            for (int round = 0; round < 2; ++round)
               for (int m : perm) {
                  const ipr::Qualified& r = w.lex.get_qualified(w.q[m], *w.T[t]);
                  rep.count("transitions");
                  if (round == 0) { node[m] = &r; rep.count("states"); }
                  else if (node[m] != &r) fail("C11:direct-unstable", h, "asking again for " + mask_text(m) + " over the same type returned a different node (sets requested directly, not nested)");
                  if (r.qualifiers() != w.q[m] or &r.main_variant() != w.T[t]) fail("C11:qualifiers-not-union", h, "a directly requested qualified type does not report its qualifiers / main variant");
               }
            for (int a = 1; a < 8; ++a) for (int b = a + 1; b < 8; ++b) if (node[a] == node[b]) fail("C11:different-sets-same-node", h, "two different qualifier sets over the same type share a node");
            rep.count("traces");
         }
      } while (std::next_permutation(perm.begin(), perm.end()));
   }

   void enumerate(int depth)
   {
      long long idx = 0;
      for (int d = 1; d <= depth; ++d) {
         std::vector<int> m(d, 1);
         while (true) {
            for (int t = 0; t < NT; ++t)
               for (int df = 0; df < 2; ++df)
                  for (int nz = 0; nz < 4; ++nz)
                     if (opt.mine(idx++)) run(Hist{ t, m, df, nz });
            int i = d - 1;
            while (i >= 0 and ++m[i] == 8) m[i--] = 1;
            if (i < 0) break;
            if (opt.expired()) { rep.cap("deadline at depth " + std::to_string(d)); return; }
         }
         if (opt.shard == 0) rep.maxi("max_depth", d);
      }
   }
}

   // Many (qualifiers, type) keys in ONE lookup table: 7 sets x 12 types, inserted in several orders, then all asked again.
   void many_keys()
   {
      for (int order = 0; order < 6; ++order) {
         if (not opt.mine(order)) continue;
         for (int personality = 0; personality < 4; ++personality) {
         // heap-address personality: the (qualifiers, type) table is ordered by the address of the type
         vf::env::set_alloc(vf::env::Alloc(personality));
         struct Reset { ~Reset() { vf::env::set_alloc(vf::env::Alloc::Malloc); vf::env::arena_reset(); } } reset;
         World w;
         std::vector<const ipr::Type*> types(w.T.begin(), w.T.end());
         for (int i = 0; i < 6; ++i) types.push_back(&w.lex.get_rvalue_reference(*types[std::size_t(i)]));
         const int NTY = int(types.size());
         std::vector<std::pair<int, int>> keys;
         for (int t = 0; t < NTY; ++t) for (int m = 1; m < 8; ++m) keys.push_back({ m, t });
         switch (order) {
         case 1: std::reverse(keys.begin(), keys.end()); break;
         case 2: std::stable_sort(keys.begin(), keys.end(), [](auto& a, auto& b) { return a.first < b.first; }); break;
         case 3: { std::vector<std::pair<int, int>> k2; for (std::size_t i = 0; i < keys.size(); ++i) k2.push_back(keys[(i * 37) % keys.size()]); keys = k2; break; }
         case 4: { std::vector<std::pair<int, int>> k2; for (std::size_t i = 0, lo = 0, hi = keys.size() - 1; i < keys.size(); ++i) k2.push_back(i % 2 ? keys[hi--] : keys[lo++]); keys = k2; break; }
         case 5: std::stable_sort(keys.begin(), keys.end(), [&](auto& a, auto& b) { return types[std::size_t(a.second)] > types[std::size_t(b.second)]; }); break;
         default: break;
         }
         Hist h{ 0, { order }, 0, 0 };
         std::vector<const ipr::Qualified*> got;
         for (auto& [m, t] : keys) {
            // a refused request on the very type that is qualified next (nothing of it may survive into that request)
            try { (void) w.lex.get_qualified(ipr::Qualifiers{ }, *types[std::size_t(t)]); fail("C11:empty-set-accepted", h, "get_qualified with an empty qualifier set returned a node instead of refusing"); } catch (...) { }
            got.push_back(&w.lex.get_qualified(w.q[m], *types[std::size_t(t)]));
            if (got.back()->qualifiers() != w.q[m] or &got.back()->main_variant() != types[std::size_t(t)]) { fail("C11:main-variant-wrong", h, "right after a refused request on the same type, get_qualified(" + mask_text(m) + ", T) returned a node with other qualifiers or another main variant (insertion order #" + std::to_string(order) + ")"); break; }
            rep.count("transitions"); rep.count("states");
         }
         if (got.size() != keys.size()) { rep.count("traces"); continue; }
         for (std::size_t i = 0; i < keys.size(); ++i) {
            rep.count("transitions");
            const ipr::Qualified& again = w.lex.get_qualified(w.q[keys[i].first], *types[std::size_t(keys[i].second)]);
            if (&again != got[i]) { fail("C11:direct-unstable", h, "with " + std::to_string(keys.size()) + " qualified types in one Lexicon (insertion order #" + std::to_string(order) + "), asking again for key #" + std::to_string(i) + " returned a different node"); break; }
            if (again.qualifiers() != w.q[keys[i].first] or &again.main_variant() != types[std::size_t(keys[i].second)]) { fail("C11:qualifiers-not-union", h, "a qualified type no longer reports its qualifiers / main variant after many insertions"); break; }
         }
         std::set<const void*> distinct(got.begin(), got.end());
         if (distinct.size() != keys.size()) fail("C11:different-sets-same-node", h, "different (qualifiers, type) pairs share a node among " + std::to_string(keys.size()) + " keys");
         rep.count("traces");
         }
      }
   }

int main(int argc, char** argv)
{
   opt = vf::parse_options(argc, argv);
   vf::install_crash_handler(opt, "C11");
   if (not opt.replay.empty()) {
      verbose = true;
      auto ops = vf::json_int_array(vf::slurp(opt.replay), "ops");
      if (ops.size() < 4) { std::printf("bad replay file\n"); return 2; }
      Hist h{ int(ops[0]), {}, int(ops[1]), int(ops[2]) };
      for (std::size_t i = 3; i < ops.size(); ++i) h.masks.push_back(int(ops[i]));
      std::printf("replay C11: %s\n", h.text().c_str());
      run(h);
      for (auto& [k, v] : rep.viols) std::printf("violated: %s  (%s)\n", k.c_str(), v.what.c_str());
      return rep.viols.empty() ? 0 : 1;
   }
   const int depth = opt.thorough() ? 5 : 3;
   enumerate(depth);
   direct_orders();
   many_keys();
   if (opt.shard == 0) {
      rep.info("bounds", vf::JObj{}.num("max_chain_length", depth).num("qualifier_sets", 7).num("base_types", NT)
                            .str("deviations", "direct request before/after the chain; unrelated constructions interleaved or not").done());
      rep.sample(vf::JObj{}.str("history", Hist{ 1, { 1, 2, 1 }, 0, 1 }.text()).str("checked", "each prefix result == get_qualified(union,T); main_variant()==T and not Qualified; empty set refused").done());
      rep.sample(vf::JObj{}.str("history", Hist{ 2, { 4, 3 }, 1, 0 }.text()).done());
   }
   rep.write(opt);
   return 0;
}
