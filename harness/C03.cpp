// C03 — words are interned: one String node per distinct byte content, content preserved.
// (1) every sequence of intern() calls up to the bound over a 14-word alphabet built on the arena boundaries, under
//     three string-hash personalities, each on a fresh pool, re-reading EVERY String returned so far after every step;
// (2) deterministic boundary sweeps: all lengths 0..300, all 256 byte values at 4 position classes, pool roll-over for
//     every (remaining headers, needed headers) shape, oversize allocations;
// (3) all 56 reserved words and their near misses.
// Compiled with -fno-access-control: private arena state is read ONLY to account for non-vacuity of the roll-over shapes.
#include <cstring>
#include <map>
#include <memory>
#include <string>
#include <vector>

#include <ipr/impl>

#include "envctl.hpp"
#include "report.hpp"

namespace {
   vf::Report rep;
   vf::Options opt;
   bool verbose = false;
   using ipr::util::word_view;
   using U8 = std::u8string;

   std::string show(const U8& w)
   {
      std::string s;
      for (char8_t c : w.substr(0, 40)) {
         if (c >= 0x20 and c < 0x7f and c != '\\' and c != '"') s += char(c);
         else { char b[8]; std::snprintf(b, sizeof b, "\\x%02x", unsigned(c)); s += b; }
      }
      if (w.size() > 40) s += "...(" + std::to_string(w.size()) + " bytes)";
      return s;
   }

   // ---- alphabet ----
   std::vector<U8> alphabet()
   {
      std::vector<U8> a;
      a.push_back(u8"");
      a.push_back(u8"a");
      a.push_back(u8"abcdefg");                       // 7: last length that fits the inline header with room
      a.push_back(u8"abcdefgh");                      // 8: exactly the inline header
      a.push_back(u8"abcdefghi");                     // 9: first byte of the first granule
      a.push_back(U8(23, u8'q'));
      a.push_back(U8(24, u8'q'));                     // 8 + 16: exactly one granule
      a.push_back(U8(25, u8'q'));
      a.push_back(u8"abcdefgX");                      // equal length as #3, differs in the last byte
      a.push_back(U8(u8"a\0b\0", 4));                 // embedded NULs, trailing NUL
      a.push_back(u8"middle");                        // interned from the middle of a larger buffer
      a.push_back(u8"int");                           // reserved
      a.push_back(u8"in");                            // near misses
      a.push_back(u8"int_");
      return a;
   }

   const char8_t* const reserved[] = {
      u8"...", u8"=0", u8"C", u8"C++", u8"auto", u8"bool", u8"char", u8"char16_t", u8"char32_t", u8"char8_t", u8"class",
      u8"const", u8"consteval", u8"constexpr", u8"constinit", u8"default", u8"delete", u8"double", u8"enum", u8"explicit",
      u8"export", u8"extern", u8"false", u8"float", u8"friend", u8"inline", u8"int", u8"long", u8"long double",
      u8"long long", u8"mutable", u8"namespace", u8"nullptr", u8"private", u8"protected", u8"public", u8"register",
      u8"restrict", u8"short", u8"signed char", u8"static", u8"this", u8"thread_local", u8"true", u8"typedef",
      u8"typename", u8"union", u8"unsigned char", u8"unsigned int", u8"unsigned long", u8"unsigned long long",
      u8"unsigned short", u8"virtual", u8"void", u8"volatile", u8"wchar_t",
   };
   bool is_reserved(const U8& w)
   {
      for (auto r : reserved) if (w == r) return true;
      return false;
   }

   struct Witness {
      std::string part;
      int hash = 0;
      std::vector<long long> ops;
      std::string text;
   };

   const Witness* cur_wit = nullptr;
   void describe_current(char* buf, std::size_t n)
   {
      if (cur_wit == nullptr) { buf[0] = 0; return; }
      std::string ops = vf::jarr(cur_wit->ops);
      std::snprintf(buf, n, "\"pass\":\"C03\",\"part\":%s,\"hash\":%d,\"ops\":%s,\"text\":%s",
                    vf::jstr(cur_wit->part).c_str(), cur_wit->hash, ops.c_str(), vf::jstr(cur_wit->text).c_str());
   }

   void fail(const std::string& key, long long rank, const std::string& what, const Witness& w)
   {
      rep.violation(key, rank, what + " [" + w.part + ": " + w.text + "]",
                    vf::JObj{}.str("pass", "C03").str("part", w.part).num("hash", w.hash).raw("ops", vf::jarr(w.ops)).str("text", w.text).done());
      if (verbose) std::printf("  VIOLATION %s: %s\n", key.c_str(), what.c_str());
   }

   // A pool under test plus the reference model, with the interning discipline of the property: the source bytes are
   // presented without terminator from the middle of a scratch buffer which is scribbled over right after the call.
   struct Checked {
      ipr::util::string_pool pool;
      std::map<U8, const ipr::String*> model;
      std::vector<std::pair<U8, const ipr::String*>> returned;     // in order of first return
      std::vector<char8_t> scratch;
      Witness wit;
      bool ok = true;
      bool full_check = true;
      ~Checked() { if (cur_wit == &wit) cur_wit = nullptr; }

      const ipr::String* intern(const U8& w)
      {
         cur_wit = &wit;
         opt.kick();          // one request is the unit of work the hang watchdog times (a job may be 10^5 requests under a one-bucket hash)
         scratch.assign(w.size() + 5, u8'#');
         if (not w.empty()) std::memcpy(scratch.data() + 3, w.data(), w.size());
         const ipr::String& s = pool.intern(word_view(scratch.data() + 3, w.size()));
         std::fill(scratch.begin(), scratch.end(), char8_t(0xAA));
         rep.count("transitions");
         auto it = model.find(w);
         if (it == model.end()) {
            // new content: must be a node distinct from every node returned so far
            for (auto& [content, node] : returned)
               if (node == &s) {
                  fail("C03:alias-different-content", wit.ops.size(), "interning '" + show(w) + "' returned the node of '" + show(content) + "'", wit);
                  ok = false;
               }
            model[w] = &s;
            returned.push_back({ w, &s });
         }
         else if (it->second != &s) {
            fail("C03:same-content-different-node", wit.ops.size(), "interning '" + show(w) + "' twice returned two nodes", wit);
            ok = false;
         }
         // the returned node spells exactly the bytes
         auto got = s.characters();
         if (got.size() != w.size() or (not w.empty() and std::memcmp(got.data(), w.data(), w.size()) != 0)) {
            fail("C03:content-wrong-at-return", wit.ops.size(), "the String returned for '" + show(w) + "' does not spell it", wit);
            ok = false;
         }
         if (got.data() >= scratch.data() and got.data() < scratch.data() + scratch.size())
            fail("C03:points-into-source", wit.ops.size(), "the String views the caller's buffer", wit);
         if (full_check) recheck();
         return &s;
      }

      // no later interning altered a String returned earlier
      void recheck()
      {
         for (auto& [content, node] : returned) {
            auto got = node->characters();
            rep.count("rereads");
            if (got.size() != content.size() or (not content.empty() and std::memcmp(got.data(), content.data(), content.size()) != 0)) {
               fail("C03:content-altered-later", wit.ops.size(), "an earlier String ('" + show(content) + "') no longer spells its bytes", wit);
               ok = false;
               return;
            }
         }
      }
   };

   // The process-wide constant String of a reserved word, reached WITHOUT interning.
   std::map<U8, const ipr::String*> constant_strings(ipr::impl::Lexicon& lex)
   {
      std::map<U8, const ipr::String*> m;
      auto put = [&](const ipr::String& s) { m[U8(s.characters())] = &s; };
      auto id = [&](const ipr::Name& n) { if (auto i = ipr::util::view<ipr::Identifier>(n)) put(i->string()); };
      const ipr::Lexicon& l = lex;
      for (auto t : { &l.void_type(), &l.bool_type(), &l.char_type(), &l.schar_type(), &l.uchar_type(), &l.wchar_t_type(),
                      &l.char8_t_type(), &l.char16_t_type(), &l.char32_t_type(), &l.short_type(), &l.ushort_type(), &l.int_type(),
                      &l.uint_type(), &l.long_type(), &l.ulong_type(), &l.long_long_type(), &l.ulong_long_type(), &l.float_type(),
                      &l.double_type(), &l.long_double_type(), &l.ellipsis_type(), &l.typename_type(), &l.class_type(),
                      &l.union_type(), &l.enum_type(), &l.namespace_type(), &l.default_value().type() })
         id(t->name());
      for (auto s : { &l.false_value(), &l.true_value(), &l.nullptr_value(), &l.default_value(), &l.delete_value() }) id(s->name());
      id(lex.get_this(l.int_type()).name());
      put(l.c_linkage().language().what());
      put(l.cxx_linkage().language().what());
      ipr::Specifiers all{};
      for (auto s : { l.export_specifier(), l.static_specifier(), l.extern_specifier(), l.mutable_specifier(), l.thread_local_specifier(),
                      l.register_specifier(), l.inline_specifier(), l.constexpr_specifier(), l.consteval_specifier(), l.virtual_specifier(),
                      l.abstract_specifier(), l.explicit_specifier(), l.friend_specifier(), l.typedef_specifier(), l.public_specifier(),
                      l.protected_specifier(), l.private_specifier() })
         all |= s;
      for (auto b : l.decompose(all)) put(b.logogram().what());
      for (auto b : l.decompose(l.const_qualifier() | l.volatile_qualifier() | l.restrict_qualifier())) put(b.logogram().what());
      // constinit has no named accessor: every bit of the specifier space that decomposes to something
      for (int bit = 0; bit < 24; ++bit)
         for (auto b : l.decompose(ipr::Specifiers{ std::uintptr_t(1) << bit })) put(b.logogram().what());
      return m;
   }

   // ---- part 1: all intern sequences over the alphabet ----
   void sequences(int depth)
   {
      using vf::env::Hash;
      auto A = alphabet();
      const int n = int(A.size());
      long long idx = 0;
      for (int hm = 0; hm < 3; ++hm) {
         vf::env::set_hash(Hash(hm));
         for (int d = 1; d <= depth; ++d) {
            std::vector<int> h(d, 0);
            while (true) {
               if (opt.mine(idx++)) {
                  vf::env::set_alloc(vf::env::Alloc::Ascending);
                  {
                     Checked c;
                     c.wit.part = "sequence";
                     c.wit.hash = hm;
                     for (int i = 0; i < d; ++i) {
                        c.wit.ops.push_back(h[i]);
                        c.wit.text += "'" + show(A[h[i]]) + "' ";
                        c.intern(A[h[i]]);
                        rep.count("states");
                     }
                     // special words
                     auto e = c.model.find(U8{});
                     if (e != c.model.end() and e->second != &ipr::String::empty_string())
                        fail("C03:empty-word-not-constant", d, "the empty word is not String::empty_string()", c.wit);
                     rep.count("traces");
                     std::string pat;
                     bool repeat = false;
                     for (int i = 0; i < d; ++i) {
                        int first = i;
                        for (int j = 0; j < i; ++j) if (h[j] == h[i]) { first = j; repeat = true; break; }
                        pat += char('0' + first);
                     }
                     rep.member("outcomes", pat);
                     if (repeat) rep.count("distinct_nontrivial");
                  }
                  vf::env::set_alloc(vf::env::Alloc::Malloc);
                  vf::env::arena_reset();
               }
               int i = d - 1;
               while (i >= 0 and ++h[i] == n) h[i--] = 0;
               if (i < 0) break;
               if ((idx & 0xfff) == 0 and opt.expired()) { rep.cap("deadline in sequences depth " + std::to_string(d)); vf::env::set_hash(Hash::Real); return; }
            }
            if (opt.shard == 0) rep.maxi("max_depth", d);
         }
      }
      vf::env::set_hash(Hash::Real);
   }

   // ---- part 1b: two pools alive at the same time, after a third one has lived and died ----
   // Alphabet: (pool A | pool B) x 5 words; every sequence up to the depth; after every step every String of BOTH pools
   // is re-read.  Interning in one pool must not touch what the other one handed out, whatever an earlier pool left behind.
   void two_pools(int depth)
   {
      std::vector<U8> W{ u8"p", u8"abcdefghi", U8(25, u8'q'), u8"int", U8(40, u8'z') };
      const int n = int(W.size()) * 2;
      long long idx = 0;
      for (int hm = 0; hm < 3; ++hm) {
         vf::env::set_hash(vf::env::Hash(hm));
         for (int d = 2; d <= depth; ++d) {
            std::vector<int> h(std::size_t(d), 0);
            while (true) {
               if (opt.mine(idx++)) {
                  { Checked gone; gone.wit.part = "two-pools"; gone.intern(u8"left-behind-by-an-earlier-pool"); gone.intern(U8(30, u8'g')); }
                  Checked a, b;
                  for (Checked* c : { &a, &b }) { c->wit.part = "two-pools"; c->wit.hash = hm; }
                  for (int i = 0; i < d; ++i) {
                     Checked& c = h[std::size_t(i)] % 2 ? b : a;
                     for (Checked* k : { &a, &b }) { k->wit.ops.push_back(h[std::size_t(i)]); k->wit.text += std::string(h[std::size_t(i)] % 2 ? "B:'" : "A:'") + show(W[std::size_t(h[std::size_t(i)] / 2)]) + "' "; }
                     const ipr::String* s = c.intern(W[std::size_t(h[std::size_t(i)] / 2)]);
                     a.recheck(); b.recheck();
                     // a dynamic word interned in both pools has a node in each; a reserved word has one node for both
                     Checked& other = h[std::size_t(i)] % 2 ? a : b;
                     auto it = other.model.find(W[std::size_t(h[std::size_t(i)] / 2)]);
                     if (it != other.model.end() and (it->second == s) != is_reserved(W[std::size_t(h[std::size_t(i)] / 2)]))
                        fail("C03:two-pools:sharing", d, std::string("the word '") + show(W[std::size_t(h[std::size_t(i)] / 2)]) + "' interned in two live pools " + (it->second == s ? "has ONE node" : "has two nodes although it is reserved"), c.wit);
                     rep.count("states");
                  }
                  rep.count("traces");
               }
               int i = d - 1;
               while (i >= 0 and ++h[std::size_t(i)] == n) h[std::size_t(i--)] = 0;
               if (i < 0) break;
               if ((idx & 0xfff) == 0 and opt.expired()) { rep.cap("deadline in two-pool sequences"); vf::env::set_hash(vf::env::Hash::Real); return; }
            }
         }
      }
      vf::env::set_hash(vf::env::Hash::Real);
   }

   // ---- part 2: boundary sweeps ----
   U8 pattern(std::size_t n, unsigned salt)
   {
      U8 w(n, u8'\0');
      for (std::size_t i = 0; i < n; ++i) w[i] = char8_t('A' + (i * 7 + salt * 13 + i / 251) % 53);
      return w;
   }

   long headers_needed(std::size_t n)       // documented layout: 8 inline bytes in a 16-byte header, then 16-byte granules
   {
      return n <= 8 ? 1 : 1 + long((n - 8 + 15) / 16);
   }

   void lengths_and_bytes(int hm)
   {
      Checked c;
      c.wit.part = "lengths";
      c.wit.hash = hm;
      c.full_check = false;
      for (std::size_t n = 0; n <= 300; ++n) {
         c.wit.ops = { (long long) n };
         c.wit.text = "length " + std::to_string(n);
         c.intern(pattern(n, 1));
         c.intern(pattern(n, 2));         // equal-length neighbour
         if (n % 16 == 0) c.recheck();
         rep.count("states");
      }
      c.recheck();
      // every byte value at four position classes of words of length 26
      for (int pos : { 0, 7, 8, 25 })
         for (int b = 0; b < 256; ++b) {
            U8 w = pattern(26, 3);
            w[pos] = char8_t(b);
            c.wit.ops = { pos, b };
            c.wit.text = "byte " + std::to_string(b) + " at " + std::to_string(pos);
            c.intern(w);
            rep.count("states");
         }
      // single-byte words for all 256 values, and two-byte words ending in each value
      for (int b = 0; b < 256; ++b) {
         c.wit.ops = { -1, b };
         c.wit.text = "one-byte word " + std::to_string(b);
         c.intern(U8(1, char8_t(b)));
         c.intern(U8{ u8'z', char8_t(b) });
         rep.count("states");
      }
      c.recheck();
      // second round: every word again, must hit
      auto snapshot = c.returned;
      for (auto& [w, node] : snapshot) {
         c.wit.text = "second request of '" + show(w) + "'";
         if (c.intern(w) != node) break;
      }
      c.recheck();
      rep.count("traces");
   }

   void rollover(int hm)
   {
      using arena = ipr::util::string::arena;
      const long bufsz = arena::bufsz;
      for (int rem = 0; rem <= 5; ++rem)
         for (int need = 1; need <= 7; ++need) {
            Checked c;
            c.wit.part = "rollover";
            c.wit.hash = hm;
            c.wit.ops = { rem, need };
            c.wit.text = "remaining=" + std::to_string(rem) + " headers, needed=" + std::to_string(need);
            c.full_check = false;
            c.intern(pattern(20, 5));                   // something before the filler
            const long used = headers_needed(20);
            const long filler_headers = bufsz - rem - used;
            const std::size_t filler_len = 8 + 16 * std::size_t(filler_headers - 1);
            c.intern(pattern(filler_len, 6));
            // non-vacuity: the arena really has `rem` headers left in its current pool
            long left = c.pool.strings.mem->storage + bufsz - c.pool.strings.next_header;
            if (left == rem) rep.count("rollover_shapes_confirmed");
            else rep.member("rollover_shapes_unconfirmed", c.wit.text + " (arena reports " + std::to_string(left) + ")");
            const std::size_t len = need == 1 ? 5 : 8 + 16 * std::size_t(need - 1) - 3;
            c.intern(pattern(len, 7));                  // the probe: fits exactly, or rolls over
            c.recheck();
            for (unsigned k = 0; k < 6; ++k) c.intern(pattern(9 + k * 11, 8 + k));   // neighbours after the boundary
            c.recheck();
            c.intern(pattern(len, 7));
            c.intern(pattern(filler_len, 6));
            c.recheck();
            rep.count("states");
            rep.count("traces");
         }
   }

   void oversize(int hm)
   {
      const std::size_t MiB = std::size_t(1) << 20;
      std::vector<std::size_t> lens = { 65535, 65536, 65537, 65544, 65545, MiB - 32, MiB - 9, MiB - 8, MiB - 7, MiB - 1, MiB, MiB + 1,
                                        MiB + 7, MiB + 8, MiB + 9, MiB + 32, 2 * MiB + 3 };
      for (int fresh = 0; fresh < 2; ++fresh) {
         for (std::size_t i = 0; i < lens.size(); ++i) {
            Checked c;
            c.wit.part = "oversize";
            c.wit.hash = hm;
            c.wit.ops = { fresh, (long long) lens[i] };
            c.wit.text = std::to_string(lens[i]) + " bytes" + (fresh ? " into a fresh pool" : " after small words");
            c.full_check = false;
            if (not fresh) for (unsigned k = 0; k < 40; ++k) c.intern(pattern(3 + k, 20 + k));
            c.intern(pattern(lens[i], 9));
            c.recheck();
            for (unsigned k = 0; k < 10; ++k) c.intern(pattern(11 + 5 * k, 70 + k));
            c.intern(pattern(lens[(i + 1) % lens.size()], 10));
            c.recheck();
            c.intern(pattern(lens[i], 9));
            rep.count("states");
            rep.count("traces");
         }
      }
   }

   // long history: many distinct words so that several pools are chained and every bucket chains
   void many_words(int hm, long count)
   {
      Checked c;
      c.wit.part = "many";
      c.wit.hash = hm;
      c.full_check = false;
      for (long i = 0; i < count; ++i) {
         U8 w = pattern(1 + std::size_t(i % 61), unsigned(i / 61));
         w += U8(reinterpret_cast<const char8_t*>(std::to_string(i).c_str()));
         c.wit.ops = { i };
         c.wit.text = "word #" + std::to_string(i);
         c.intern(w);
         if (((i + 1) & i) == 0) c.recheck();
         if (not c.ok) return;
      }
      c.recheck();
      rep.count("states", count);
      rep.count("traces");
   }

   // ---- part 3: reserved words and near misses ----
   void reserved_words()
   {
      ipr::impl::Lexicon lex1, lex2;
      auto constants = constant_strings(lex1);
      Witness w;
      w.part = "reserved";
      for (auto r : reserved) {
         U8 word = r;
         w.text = show(word);
         if (constants.count(word) == 0) {
            rep.member("reserved_words_without_independent_route", show(word));
            continue;
         }
         ipr::util::string_pool p1, p2;
         std::vector<char8_t> buf(word.begin(), word.end());
         const ipr::String* got[] = { &p1.intern(word_view(buf.data(), buf.size())), &p2.intern(word_view(buf.data(), buf.size())),
                                      &p1.intern(word), &lex1.get_string(word), &lex2.get_string(word) };
         rep.count("transitions", 5);
         rep.count("states");
         for (auto g : got)
            if (g != constants[word]) {
               fail("C03:reserved-word-not-constant:" + show(word), 0, "interning the reserved word '" + show(word) + "' does not yield its process-wide constant", w);
               break;
            }
         // near misses: every proper prefix, every proper suffix, extension by one character, one-byte edits
         std::vector<U8> near;
         for (std::size_t i = 1; i < word.size(); ++i) { near.push_back(word.substr(0, i)); near.push_back(word.substr(i)); }
         for (char8_t c : { u8'_', u8' ', u8'\0', u8'0', u8'z' }) { near.push_back(word + c); near.push_back(c + word); }
         for (std::size_t i = 0; i < word.size(); ++i)
            for (int delta : { 1, -1, 32 }) { U8 e = word; e[i] = char8_t(e[i] + delta); near.push_back(e); }
         Checked c;
         c.wit = w;
         c.full_check = false;
         for (auto& nm : near) {
            c.wit.text = "near miss '" + show(nm) + "' of '" + show(word) + "'";
            auto s = c.intern(nm);
            rep.count("states");
            bool res = is_reserved(nm);
            bool constant = false;
            for (auto& [cw, cs] : constants) if (cs == s) constant = true;
            if (s == &ipr::String::empty_string()) constant = true;
            if (not res and not nm.empty() and constant)
               fail("C03:near-miss-mapped-to-constant", 0, "a word that is not reserved was mapped to a reserved word's node", c.wit);
            if (res and constants.count(nm) and s != constants[nm])
               fail("C03:reserved-word-not-constant:" + show(nm), 0, "interning the reserved word '" + show(nm) + "' does not yield its process-wide constant", c.wit);
         }
         c.recheck();
         rep.count("traces");
      }
      // the empty word
      ipr::util::string_pool p;
      if (&p.intern(word_view{}) != &ipr::String::empty_string() or &lex1.get_string(u8"") != &ipr::String::empty_string()
          or &p.intern(word_view(u8"abc", 0)) != &ipr::String::empty_string())
         fail("C03:empty-word-not-constant", 0, "the empty word is not String::empty_string()", w);
      rep.count("reserved_words_with_independent_route", (long long) constants.size());
   }

   void sweeps(bool deep)
   {
      using vf::env::Hash;
      int job = 0;
      for (int hm = 0; hm < 3; ++hm) {
         auto with = [&](auto f) {
            if (opt.mine(job++)) {
               vf::env::set_hash(Hash(hm));
               f();
               vf::env::set_hash(Hash::Real);
            }
         };
         with([&] { lengths_and_bytes(hm); });
         with([&] { rollover(hm); });
         with([&] { oversize(hm); });
         if (hm != int(Hash::Constant)) with([&] { many_words(hm, deep ? 300000 : 70000); });
         else with([&] { many_words(hm, 3000); });          // one bucket: quadratic, keep it short
      }
      if (opt.mine(job++)) reserved_words();
   }
}

int main(int argc, char** argv)
{
   opt = vf::parse_options(argc, argv);
   vf::install_crash_handler(opt, "C03");
   vf::crash_describe = describe_current;
   bool only_sweeps = false;
   for (auto& e : opt.extra) if (e == "--sweeps-only") only_sweeps = true;
   if (not opt.replay.empty()) {
      verbose = true;
      auto text = vf::slurp(opt.replay);
      auto ops = vf::json_int_array(text, "ops");
      int hm = int(vf::json_int(text, "hash"));
      bool seq = text.find("\"sequence\"") != std::string::npos;
      std::printf("replay C03: part=%s hash=%s\n", seq ? "sequence" : "sweeps", vf::env::hash_name(vf::env::Hash(hm)));
      if (seq) {
         auto A = alphabet();
         vf::env::set_hash(vf::env::Hash(hm));
         Checked c;
         c.wit.part = "sequence";
         c.wit.hash = hm;
         for (auto o : ops) { c.wit.ops.push_back(o); std::printf("  intern '%s'\n", show(A[o]).c_str()); c.intern(A[o]); }
      }
      else {
         opt.shards = 1;
         sweeps(false);
      }
      for (auto& [k, v] : rep.viols) std::printf("violated: %s  (%s)\n", k.c_str(), v.what.c_str());
      return rep.viols.empty() ? 0 : 1;
   }
   const bool deep = opt.thorough();
   if (not only_sweeps) { sequences(deep ? 5 : 4); two_pools(deep ? 5 : 4); }
   sweeps(deep);
   if (opt.shard == 0) {
      rep.info("bounds", vf::JObj{}.num("alphabet", 14).num("max_sequence_length", deep ? 5 : 4).str("hash_modes", "real, constant (one bucket), length-only")
                            .str("sweeps", "lengths 0..300 x2, 256 byte values x 4 positions, 42 roll-over shapes, 34 oversize shapes, many-words, 56 reserved words + near misses").done());
      rep.sample(vf::JObj{}.str("sequence", "'abcdefgh' 'abcdefgX' 'int' 'abcdefgh'").str("hash", "constant").str("checked", "identity==content equality; every earlier String re-read after each step; source buffer scribbled").done());
      rep.sample(vf::JObj{}.str("rollover", "remaining=2 headers, needed=3").done());
   }
   rep.write(opt);
   return 0;
}
