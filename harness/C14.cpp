// C14 — missing or out-of-range data raises a logic error, never undefined behaviour.
// State space: (zoo entry) x (state: just built / after the row has set its links) x EVERY accessor of its interface,
// plus, for every kind with settable links, ALL subsets of links set; every Sequence reached through an accessor is
// indexed from 0 to beyond size() (and at SIZE_MAX, SIZE_MAX/2) and iterated.  Built with ASan + UBSan
// (-fno-sanitize-recover): a report aborts the shard and the crash handler names the row.
#include <functional>

#include "zoo/zoo.hpp"

namespace zoo { std::string observe(Ctx&, const ipr::Node&); }

namespace {
   vf::Report rep;
   vf::Options opt;
   bool verbose = false;
   std::string current = "";

   void describe_current(char* buf, std::size_t n) { std::snprintf(buf, n, "\"pass\":\"C14\",\"ops\":[],\"state\":%s", vf::jstr(current).c_str()); }

   void drain(zoo::Ctx& c, const std::string& iface, const std::string& state, long long rank)
   {
      for (auto& [acc, what] : c.probe.bad)
         rep.violation("C14:" + iface + ":" + acc, rank, "accessor " + acc + " of a " + iface + " " + what + " [" + state + "]",
                       vf::JObj{}.str("pass", "C14").raw("ops", vf::jarr(std::vector<long long>{ c.rot })).str("state", state).done());
      if (verbose) for (auto& [acc, what] : c.probe.bad) std::printf("  VIOLATION C14:%s:%s %s [%s]\n", iface.c_str(), acc.c_str(), what.c_str(), state.c_str());
      c.probe.bad.clear();
   }

   void observe_entry(zoo::Ctx& c, std::size_t idx, const char* when)
   {
      const zoo::Entry& e = c.entries[idx];
      if (not e.observe) return;
      current = e.row + " (" + e.iface + ") " + when;
      std::string fp = e.observe(c);
      // the refusals (dozens of logic_errors per node: unset links, out-of-range positions) must leave the node as it was
      if (e.observe(c) != fp)
         rep.violation("C14:" + e.iface + ":refusals-change-the-node", (long long) idx, "reading every accessor of a " + e.iface + " (with the refusals that entails) a second time gives other results [" + current + "]",
                       vf::JObj{}.str("pass", "C14").raw("ops", vf::jarr(std::vector<long long>{ c.rot })).str("state", current).done());
      rep.count("states");
      rep.member("outcomes", e.iface + ":" + std::to_string(vf::fnv(fp) % 100000));
      drain(c, e.iface, current, (long long) idx);
   }

   void table(int rot)
   {
      using namespace zoo;
      ipr::impl::Lexicon lex;
      ipr::impl::Translation_unit unit{ lex };
      Ctx c{ lex, unit };
      c.rot = rot;
      c.prop = "";
      c.out_of_range_probes = true;
      c.on_register = [](Ctx& cc, std::size_t idx) { observe_entry(cc, idx, "as built"); };
      build_all(c);
      c.on_register = nullptr;
      for (std::size_t i = 0; i < c.entries.size(); ++i) observe_entry(c, i, "after its row has set its links");
      // a second full build on the same Lexicon, then everything again (states reached after growth)
      build_all(c);
      for (std::size_t i = 0; i < c.entries.size(); ++i) observe_entry(c, i, "after the table was built twice");
      rep.count("transitions", c.probe.calls);
      rep.count("accessor_calls_returned", c.probe.returned);
      rep.count("accessor_calls_refused_with_logic_error", c.probe.refused);
      rep.count("traces");
   }

   // ALL subsets of the settable links of one kind, each on a fresh node.
   template<class Impl>
   void subsets(zoo::Ctx& c, const std::string& kind, std::function<Impl*()> make, std::vector<std::pair<const char*, std::function<void(Impl*)>>> setters,
                std::function<std::string(zoo::Ctx&, Impl*)> obs = nullptr)
   {
      const unsigned n = unsigned(setters.size());
      for (unsigned mask = 0; mask < (1u << n); ++mask) {
         Impl* node = make();
         std::string st = kind + " with {";
         for (unsigned i = 0; i < n; ++i)
            if (mask & (1u << i)) { setters[i].second(node); st += std::string(setters[i].first) + " "; }
         st += "} set";
         current = st;
         std::string fp;
         if (obs) fp = obs(c, node);
         else if constexpr (std::is_base_of_v<ipr::Node, Impl>) fp = zoo::observe(c, *node);
         rep.count("states");
         rep.count("link_subsets");
         rep.member("outcomes", kind + ":" + std::to_string(vf::fnv(fp) % 100000));
         drain(c, kind, st, mask);
      }
   }

   void partial_states(int rot)
   {
      using namespace zoo;
      namespace I = ipr::impl;
      ipr::impl::Lexicon lex;
      ipr::impl::Translation_unit unit{ lex };
      Ctx c{ lex, unit };
      c.rot = rot;
      c.prop = "";
      c.out_of_range_probes = true;
      auto& R = c.region;
      int k = 0;
      auto fresh = [&]() -> const ipr::Name& { return lex.get_identifier(std::u8string(u8"v") + char8_t('a' + k % 26) + char8_t('a' + (k++ / 26) % 26)); };
      auto& ft = lex.get_function(c.P(1), c.T(0));
      auto& fa = lex.get_forall(c.P(1), lex.class_type());

      subsets<I::Var>(c, "Var", [&] { return R.make_subregion()->declare_var(fresh(), c.T(0)); },
                      { { "init", [&](I::Var* n) { n->init = &c.E(0); } }, { "lexreg", [&](I::Var* n) { n->lexreg = &R; } }, { "home", [&](I::Var* n) { n->decl_data.master_data->home = &R; } },
                        { "linkage", [&](I::Var* n) { n->decl_data.master_data->langlinkage = &lex.c_linkage(); } }, { "def", [&](I::Var* n) { n->decl_data.master_data->def = n; } } });
      subsets<I::Field>(c, "Field", [&] { return R.make_subregion()->declare_field(fresh(), c.T(0)); },
                        { { "init", [&](I::Field* n) { n->init = &c.E(0); } }, { "home", [&](I::Field* n) { n->decl_data.master_data->home = &R; } }, { "linkage", [&](I::Field* n) { n->decl_data.master_data->langlinkage = &lex.c_linkage(); } } });
      subsets<I::Bitfield>(c, "Bitfield", [&] { return R.make_subregion()->declare_bitfield(fresh(), c.T(0)); },
                           { { "length", [&](I::Bitfield* n) { n->length = &c.E(0); } }, { "init", [&](I::Bitfield* n) { n->init = &c.E(1); } }, { "home", [&](I::Bitfield* n) { n->decl_data.master_data->home = &R; } } });
      subsets<I::Typedecl>(c, "Typedecl", [&] { return R.make_subregion()->declare_type(fresh(), lex.class_type()); },
                           { { "init", [&](I::Typedecl* n) { n->init = &c.T(2); } }, { "lexreg", [&](I::Typedecl* n) { n->lexreg = &R; } }, { "home", [&](I::Typedecl* n) { n->decl_data.master_data->home = &R; } },
                             { "def", [&](I::Typedecl* n) { n->decl_data.master_data->def = n; } } });
      subsets<I::Alias>(c, "Alias", [&] { return R.make_subregion()->declare_alias(fresh(), c.T(0)); },
                        { { "home", [&](I::Alias* n) { n->decl_data.master_data->home = &R; } }, { "linkage", [&](I::Alias* n) { n->decl_data.master_data->langlinkage = &lex.c_linkage(); } } });
      subsets<I::Fundecl>(c, "Fundecl", [&] { return R.make_subregion()->declare_fun(fresh(), ft); },
                          { { "mapping", [&](I::Fundecl* n) { n->data.emplace<1>(lex.make_mapping(R, ipr::Mapping_level{ 0 })); } }, { "lexreg", [&](I::Fundecl* n) { n->lexreg = &R; } },
                            { "home", [&](I::Fundecl* n) { n->decl_data.master_data->home = &R; } }, { "def", [&](I::Fundecl* n) { n->decl_data.master_data->def = n; } } });
      subsets<I::Fundecl>(c, "Fundecl(parameter-list)", [&] { return R.make_subregion()->declare_fun(fresh(), ft); },
                          { { "parameters", [&](I::Fundecl* n) { n->data.emplace<0>(&R.make_function_morphism(R, ipr::Mapping_level{ 0 })->inputs); } }, { "null-mapping", [&](I::Fundecl* n) { n->data.emplace<1>(nullptr); } } });
      for (int secondary = 0; secondary < 2; ++secondary)
         subsets<I::Template>(c, secondary ? "Template(secondary)" : "Template(primary)",
                              [&] { auto* r = R.make_subregion(); return secondary ? r->declare_secondary_template(fresh(), fa) : r->declare_primary_template(fresh(), fa); },
                              { { "init", [&](I::Template* n) { n->init = lex.make_mapping(R, ipr::Mapping_level{ 0 }); } },
                                { "init+result", [&](I::Template* n) { auto* m = lex.make_mapping(R, ipr::Mapping_level{ 0 }); m->body = &c.E(0); n->init = m; } },
                                { "lexreg", [&](I::Template* n) { n->lexreg = &R; } }, { "home", [&](I::Template* n) { n->decl_data.master_data->home = &R; } } });
      // a secondary template entered under a name that already names something else (variable / function / primary template)
      for (int before = 0; before < 3; ++before)
         subsets<I::Template>(c, before == 0 ? "Template(secondary after a variable of that name)" : before == 1 ? "Template(secondary after a function of that name)" : "Template(secondary after a primary of that name)",
                              [&] { auto* r = R.make_subregion(); auto& n = fresh();
                                    if (before == 0) r->declare_var(n, c.T(0)); else if (before == 1) r->declare_fun(n, ft); else r->declare_primary_template(n, fa);
                                    return r->declare_secondary_template(n, lex.get_forall(c.P(2), lex.class_type())); },
                              { { "init", [&](I::Template* n) { n->init = lex.make_mapping(R, ipr::Mapping_level{ 0 }); } }, { "lexreg", [&](I::Template* n) { n->lexreg = &R; } } });
      subsets<I::For>(c, "For", [&] { return lex.make_for(); },
                      { { "init", [&](I::For* n) { n->init = &c.E(0); } }, { "cond", [&](I::For* n) { n->cond = &c.E(1); } }, { "inc", [&](I::For* n) { n->inc = &c.E(2); } }, { "stmt", [&](I::For* n) { n->stmt = lex.make_expr_stmt(c.E(0)); } },
                        { "untyped-stmt", [&](I::For* n) { n->stmt = lex.make_return(c.E(1)); } } });
      subsets<I::For_in>(c, "For_in", [&] { return lex.make_for_in(); },
                         { { "var", [&](I::For_in* n) { n->var = R.declare_var(fresh(), c.T(0)); } }, { "seq", [&](I::For_in* n) { n->seq = &c.E(0); } }, { "stmt", [&](I::For_in* n) { n->stmt = lex.make_expr_stmt(c.E(1)); } } });
      subsets<I::Do>(c, "Do", [&] { return lex.make_do(); }, { { "control", [&](I::Do* n) { n->control = &c.E(0); } }, { "stmt", [&](I::Do* n) { n->stmt = &c.E(0); } }, { "untyped-stmt", [&](I::Do* n) { n->stmt = &c.E(1); } } });
      subsets<I::While>(c, "While", [&] { return lex.make_while(); }, { { "control", [&](I::While* n) { n->control = &c.E(0); } }, { "stmt", [&](I::While* n) { n->stmt = &c.E(0); } } });
      subsets<I::Switch>(c, "Switch", [&] { return lex.make_switch(); }, { { "control", [&](I::Switch* n) { n->control = &c.E(0); } }, { "stmt", [&](I::Switch* n) { n->stmt = &c.E(0); } } });
      subsets<I::Break>(c, "Break", [&] { return lex.make_break(); }, { { "stmt", [&](I::Break* n) { n->stmt = lex.make_while(); } } });
      subsets<I::Continue>(c, "Continue", [&] { return lex.make_continue(); }, { { "stmt", [&](I::Continue* n) { n->stmt = lex.make_do(); } } });
      subsets<I::Lambda>(c, "Lambda", [&] { return lex.make_lambda(R, ipr::Mapping_level{ 1 }); },
                         { { "typing", [&](I::Lambda* n) { n->typing = lex.make_closure(R); } }, { "value_type", [&](I::Lambda* n) { n->value_type = &c.T(0); } }, { "constraint", [&](I::Lambda* n) { n->decl_constraint = &c.E(0); } },
                           { "eh", [&](I::Lambda* n) { n->eh = &c.E(1); } }, { "body", [&](I::Lambda* n) { n->body = &c.E(2); } } });
      subsets<I::Mapping>(c, "Mapping", [&] { return lex.make_mapping(R, ipr::Mapping_level{ 1 }); },
                          { { "body", [&](I::Mapping* n) { n->body = &c.E(0); } }, { "typing", [&](I::Mapping* n) { n->typing = &c.T(0); } }, { "param", [&](I::Mapping* n) { n->param(fresh(), c.T(1)); } } });
      subsets<I::Where>(c, "Where", [&] { return lex.make_where(R); }, { { "result", [&](I::Where* n) { n->result = &c.E(0); } }, { "untyped-result", [&](I::Where* n) { n->result = &c.E(1); } } });
      subsets<I::Instantiation>(c, "Instantiation", [&] { return lex.make_instantiation(c.E(0), *lex.make_general_substitution()); },
                                { { "result", [&](I::Instantiation* n) { n->result = &c.E(0); } }, { "untyped-result", [&](I::Instantiation* n) { n->result = &c.E(1); } } });
      subsets<I::Enum>(c, "Enum", [&] { return lex.make_enum(R, ipr::Enum::Kind::Scoped); },
                       { { "id", [&](I::Enum* n) { n->id = &c.N(0); } }, { "underlying", [&](I::Enum* n) { n->underlying = &c.T(0); } }, { "member", [&](I::Enum* n) { n->add_member(fresh())->init = &c.E(0); } } });
      subsets<I::Class>(c, "Class", [&] { return lex.make_class(R); }, { { "id", [&](I::Class* n) { n->id = &c.N(0); } }, { "base", [&](I::Class* n) { n->declare_base(c.T(2)); } }, { "member", [&](I::Class* n) { n->declare_field(fresh(), c.T(0)); } } });
      subsets<I::Union>(c, "Union", [&] { return lex.make_union(R); }, { { "id", [&](I::Union* n) { n->id = &c.N(0); } }, { "member", [&](I::Union* n) { n->declare_var(fresh(), c.T(0)); } } });
      subsets<I::Namespace>(c, "Namespace", [&] { return lex.make_namespace(R); }, { { "id", [&](I::Namespace* n) { n->id = &c.N(0); } }, { "member", [&](I::Namespace* n) { n->declare_var(fresh(), c.T(0)); } } });
      subsets<I::Closure>(c, "Closure", [&] { return lex.make_closure(R); }, { { "id", [&](I::Closure* n) { n->id = &c.N(0); } }, { "capture", [&](I::Closure* n) { n->captures.push_back(c.D(0), ipr::Binding_mode::Copy); } } });
      subsets<I::Block>(c, "Block", [&] { return lex.make_block(R); },
                        { { "typing", [&](I::Block* n) { n->typing = &c.T(0); } }, { "stmt", [&](I::Block* n) { n->add_stmt(c.E(0)); } }, { "handler", [&](I::Block* n) { n->new_handler(fresh(), c.T(0)); } },
                          { "typed-handler", [&](I::Block* n) { n->new_handler(fresh(), c.T(1))->body().typing = &c.T(1); } } });
      subsets<I::Return>(c, "Return", [&] { return lex.make_return(c.E(0)); }, { { "typing", [&](I::Return* n) { n->typing = &c.T(0); } } });
      subsets<I::Ctor_body>(c, "Ctor_body", [&] { return lex.make_ctor_body(c.XL(1), *lex.make_block(R)); }, { { "typing", [&](I::Ctor_body* n) { n->typing = &c.T(0); } } });
      subsets<I::Structured_binding>(c, "Structured_binding", [&] { return lex.make_structured_binding(); },
                                     { { "init", [&](I::Structured_binding* n) { n->init = &c.E(0); } }, { "ids", [&](I::Structured_binding* n) { n->ids.push_back(&c.I(0)); } }, { "typing", [&](I::Structured_binding* n) { n->typing = &c.T(0); } } });
      subsets<I::Specifiers_spread>(c, "Specifiers_spread", [&] { return lex.make_specifiers_spread(); }, { { "typing", [&](I::Specifiers_spread* n) { n->typing = &c.T(0); } } });
      subsets<I::Pragma>(c, "Pragma", [&] { return lex.make_pragma(); }, { { "typing", [&](I::Pragma* n) { n->typing = &c.T(0); } }, { "token", [&](I::Pragma* n) { n->tokens.push_back(c.S(0), ipr::Source_location{}, ipr::TokenValue{}, ipr::TokenCategory{}); } } });
      subsets<I::Using_declaration>(c, "Using_declaration", [&] { return lex.make_using_declaration(); }, { { "typing", [&](I::Using_declaration* n) { n->typing = &c.T(0); } }, { "designator", [&](I::Using_declaration* n) { n->seq.push_back(*c.sr[0], ipr::Using_declaration::Designator::Mode::Normal); } } });
      subsets<I::Id_expr>(c, "Id_expr", [&] { return lex.make_id_expr(c.N(0)); }, { { "decls", [&](I::Id_expr* n) { n->decls = &c.D(0); } }, { "typing", [&](I::Id_expr* n) { n->typing = &c.T(0); } } });
      subsets<I::Plus>(c, "Plus", [&] { return lex.make_plus(c.E(0), c.E(1)); }, { { "op_impl", [&](I::Plus* n) { n->op_impl = &c.D(0); } }, { "typing", [&](I::Plus* n) { n->typing = &c.T(0); } } });
      subsets<I::Rewrite>(c, "Rewrite", [&] { return lex.make_rewrite(c.E(0), c.E(1)); }, { });
      subsets<I::Expr_stmt>(c, "Expr_stmt(untyped)", [&] { return lex.make_expr_stmt(c.E(1)); }, { });
      subsets<I::Labeled_stmt>(c, "Labeled_stmt(untyped)", [&] { return lex.make_labeled_stmt(c.E(0), c.E(1)); }, { });
      subsets<I::Goto>(c, "Goto(untyped)", [&] { return lex.make_goto(c.E(1)); }, { });
      subsets<I::Phased_evaluation>(c, "Phased_evaluation(untyped)", [&] { return lex.make_phased_evaluation(c.E(1), ipr::Phases::Parsing); }, { });
      subsets<I::Parameter>(c, "Parameter", [&] { return lex.make_mapping(R, ipr::Mapping_level{ 1 })->param(fresh(), c.T(0)); }, { { "init", [&](I::Parameter* n) { n->init = &c.E(0); } } });
      subsets<I::Enumerator>(c, "Enumerator", [&] { return lex.make_enum(R, ipr::Enum::Kind::Legacy)->add_member(fresh()); }, { { "init", [&](I::Enumerator* n) { n->init = &c.E(0); } } });
      subsets<I::Base_type>(c, "Base_type", [&] { return lex.make_class(R)->declare_base(c.T(2)); }, { });
      // declarator forms with links
      namespace cf = ipr::cxx_form;
      subsets<cf::impl::Parenthesized_species>(c, "Species::Parenthesized", [&] { return R.make_parenthesized_species(); },
         { { "declarator", [&](cf::impl::Parenthesized_species* n) { n->declarator = R.make_term_declarator(); } } },
         [](Ctx& cc, cf::impl::Parenthesized_species* n) { std::string o; zoo::guarded(cc, o, "term", [&]() -> std::string { (void) static_cast<const cf::Species_declarator::Parenthesized&>(*n).term(); return "ok"; }); zoo::guarded(cc, o, "suffix", [&]() -> std::string { return std::to_string(n->suffix().size()); }); return o; });
      subsets<cf::impl::Term_declarator>(c, "Declarator::Term", [&] { return R.make_term_declarator(); },
         { { "tail", [&](cf::impl::Term_declarator* n) { n->tail = R.make_pack_species(); } } },
         [](Ctx& cc, cf::impl::Term_declarator* n) { std::string o; zoo::guarded(cc, o, "species", [&]() -> std::string { (void) static_cast<const cf::Declarator::Term&>(*n).species(); return "ok"; }); zoo::guarded(cc, o, "indirectors", [&]() -> std::string { return std::to_string(n->indirectors().size()); }); return o; });
      rep.count("transitions", c.probe.calls);
      rep.count("accessor_calls_returned", c.probe.returned);
      rep.count("accessor_calls_refused_with_logic_error", c.probe.refused);
      rep.count("traces");
   }

   // ---- access patterns on growing sequences -------------------------------------------------------------------
   // Alphabet: add a member | read position 0 | read the last | read the middle | read position size() (must be refused) |
   // read position size()+1 (must be refused) | iterate from begin() to end().  EVERY history up to the depth on every kind
   // of growing sequence, against a vector of the addresses returned by the additions: a read returns the member at that
   // index or is refused with logic_error -- whatever was read or refused before.
   template<class T, class Add, class Get>
   void sequence_histories(const std::string& kind, int depth, Add make_container_and_adder, Get)
   {
      constexpr int NOPS = 7;
      static const char* const opn[] = { "add", "read[0]", "read[last]", "read[mid]", "read[size]", "read[size+1]", "iterate" };
      for (int d = 1; d <= depth; ++d) {
         std::vector<int> h(std::size_t(d), 0);
         while (true) {
            opt.kick();
            for (int prefilled = 0; prefilled <= 2; prefilled += 2)           // start from the empty container and from one with two members
            {
               ipr::impl::Lexicon lex;
               ipr::impl::Translation_unit unit{ lex };
               auto [add, seq] = make_container_and_adder(lex, unit);
               std::vector<const T*> model;
               for (auto& m : seq()) model.push_back(&m);            // members the container starts with (a declaration is its own first member)
               for (int k = 0; k < prefilled; ++k) model.push_back(add(int(model.size())));
               std::string text = prefilled ? "(two members to start with) " : "";
               bool bad = false;
               auto report = [&](const std::string& what, const char* key) {
                  std::vector<long long> ops(h.begin(), h.end());
                  rep.violation("C14:sequence-history:" + kind + ":" + key, d, what + " [" + kind + ": " + text + "]", vf::JObj{}.str("pass", "C14").str("family", "sequence-history").str("kind", kind).raw("ops", vf::jarr(ops)).done());
                  bad = true;
               };
               for (int i = 0; i < d and not bad; ++i) {
                  text += std::string(opn[h[std::size_t(i)]]) + " ";
                  current = "sequence history on " + kind + ": " + text;
                  rep.count("transitions");
                  const ipr::Sequence<T>& s = seq();
                  const std::size_t n = model.size();
                  auto read = [&](std::size_t idx) {
                     const T* got = nullptr;
                     bool refused = false;
                     try { got = &*s.position(idx); }
                     catch (const std::logic_error&) { refused = true; }
                     catch (...) { report("reading position " + std::to_string(idx) + " of " + std::to_string(n) + " throws something that is not a logic_error", "wrong-exception"); return; }
                     if (idx < n) { if (refused) report("position " + std::to_string(idx) + " of " + std::to_string(n) + " members is refused", "valid-position-refused"); else if (got != model[idx]) report("position " + std::to_string(idx) + " of " + std::to_string(n) + " members is not the member added at that index", "wrong-member"); }
                     else if (not refused) report("position " + std::to_string(idx) + " of " + std::to_string(n) + " members is answered", "out-of-range-answered");
                  };
                  switch (h[std::size_t(i)]) {
                  case 0: model.push_back(add(int(n))); if (s.size() != n + 1) report("size() is " + std::to_string(s.size()) + " after " + std::to_string(n + 1) + " additions", "size"); break;
                  case 1: read(0); break;
                  case 2: read(n ? n - 1 : 0); break;
                  case 3: read(n / 2); break;
                  case 4: read(n); break;
                  case 5: read(n + 1); break;
                  case 6: { std::size_t k = 0; try { for (auto& m : s) { if (k >= n or &m != model[k]) { report("iteration yields another member at #" + std::to_string(k), "wrong-member"); break; } ++k; } } catch (const std::exception& e) { report(std::string("iteration over ") + std::to_string(n) + " members throws: " + e.what(), "valid-position-refused"); } if (not bad and k != n) report("iteration visits " + std::to_string(k) + " of " + std::to_string(n) + " members", "size"); break; }
                  }
                  rep.count("states");
               }
               rep.count("traces");
            }
            int i = d - 1;
            while (i >= 0 and ++h[std::size_t(i)] == NOPS) h[std::size_t(i--)] = 0;
            if (i < 0) break;
         }
      }
   }

   void all_sequence_histories(int depth, int shard_job)
   {
      namespace I = ipr::impl;
      auto name = [](I::Lexicon& lex, int i) -> const ipr::Name& { return lex.get_identifier(std::u8string(u8"m") + char8_t('a' + i % 26) + char8_t('a' + i / 26 % 26)); };
      int job = 0;
      auto mine = [&] { return (job++ % 11) == shard_job % 11; };
      if (mine()) sequence_histories<ipr::Parameter>("parameter-list", depth, [&](I::Lexicon& lex, I::Translation_unit& u) { auto* m = lex.make_mapping(*u.global_region(), ipr::Mapping_level{ 1 });
         return std::pair{ std::function<const ipr::Parameter*(int)>([m, &lex, name](int i) { return m->param(name(lex, i), lex.int_type()); }), std::function<const ipr::Sequence<ipr::Parameter>&()>([m]() -> const ipr::Sequence<ipr::Parameter>& { return static_cast<const ipr::Mapping&>(*m).parameters().elements(); }) }; }, 0);
      if (mine()) sequence_histories<ipr::Base_type>("base-list", depth, [&](I::Lexicon& lex, I::Translation_unit& u) { auto* c = lex.make_class(*u.global_region());
         return std::pair{ std::function<const ipr::Base_type*(int)>([c, &lex](int i) { return c->declare_base(i % 2 ? lex.int_type() : lex.char_type()); }), std::function<const ipr::Sequence<ipr::Base_type>&()>([c]() -> const ipr::Sequence<ipr::Base_type>& { return static_cast<const ipr::Class&>(*c).bases(); }) }; }, 0);
      if (mine()) sequence_histories<ipr::Handler>("handler-list", depth, [&](I::Lexicon& lex, I::Translation_unit& u) { auto* b = lex.make_block(*u.global_region());
         return std::pair{ std::function<const ipr::Handler*(int)>([b, &lex, name](int i) { return b->new_handler(name(lex, i), lex.int_type()); }), std::function<const ipr::Sequence<ipr::Handler>&()>([b]() -> const ipr::Sequence<ipr::Handler>& { return static_cast<const ipr::Block&>(*b).handlers(); }) }; }, 0);
      if (mine()) sequence_histories<ipr::Token>("pragma-tokens", depth, [&](I::Lexicon& lex, I::Translation_unit&) { auto* p = lex.make_pragma();
         return std::pair{ std::function<const ipr::Token*(int)>([p, &lex](int i) { return static_cast<const ipr::Token*>(p->tokens.push_back(lex.get_string(u8"t"), ipr::Source_location{ }, ipr::TokenValue(i), ipr::TokenCategory{ })); }), std::function<const ipr::Sequence<ipr::Token>&()>([p]() -> const ipr::Sequence<ipr::Token>& { return static_cast<const ipr::Pragma&>(*p).operand(); }) }; }, 0);
      if (mine()) sequence_histories<ipr::Capture>("captures", depth, [&](I::Lexicon& lex, I::Translation_unit& u) { auto* cl = lex.make_closure(*u.global_region()); auto* v = u.global_region()->declare_var(lex.get_identifier(u8"v"), lex.int_type());
         return std::pair{ std::function<const ipr::Capture*(int)>([cl, v](int i) { return static_cast<const ipr::Capture*>(cl->captures.push_back(*v, i % 2 ? ipr::Binding_mode::Copy : ipr::Binding_mode::Reference)); }), std::function<const ipr::Sequence<ipr::Capture>&()>([cl]() -> const ipr::Sequence<ipr::Capture>& { return static_cast<const ipr::Closure&>(*cl).members(); }) }; }, 0);
      if (mine()) sequence_histories<ipr::Using_declaration::Designator>("using-designators", depth, [&](I::Lexicon& lex, I::Translation_unit&) { auto* ud = lex.make_using_declaration(); auto* sr = lex.make_scope_ref(*lex.make_id_expr(lex.get_identifier(u8"a")), *lex.make_id_expr(lex.get_identifier(u8"b")));
         return std::pair{ std::function<const ipr::Using_declaration::Designator*(int)>([ud, sr](int) { return static_cast<const ipr::Using_declaration::Designator*>(ud->seq.push_back(*sr, ipr::Using_declaration::Designator::Mode::Normal)); }), std::function<const ipr::Sequence<ipr::Using_declaration::Designator>&()>([ud]() -> const ipr::Sequence<ipr::Using_declaration::Designator>& { return static_cast<const ipr::Using_declaration&>(*ud).designators(); }) }; }, 0);
      if (mine()) sequence_histories<ipr::Enumerator>("enumerators", depth, [&](I::Lexicon& lex, I::Translation_unit& u) { auto* e = lex.make_enum(*u.global_region(), ipr::Enum::Kind::Scoped);
         return std::pair{ std::function<const ipr::Enumerator*(int)>([e, &lex, name](int i) { return e->add_member(name(lex, i)); }), std::function<const ipr::Sequence<ipr::Enumerator>&()>([e]() -> const ipr::Sequence<ipr::Enumerator>& { return static_cast<const ipr::Enum&>(*e).members(); }) }; }, 0);
      if (mine()) sequence_histories<ipr::Expr>("expression-list", depth, [&](I::Lexicon& lex, I::Translation_unit&) { auto* x = lex.make_expr_list();
         return std::pair{ std::function<const ipr::Expr*(int)>([x, &lex](int) { const ipr::Expr* e = lex.make_literal(lex.int_type(), u8"1"); x->push_back(e); return e; }), std::function<const ipr::Sequence<ipr::Expr>&()>([x]() -> const ipr::Sequence<ipr::Expr>& { return static_cast<const ipr::Expr_list&>(*x).elements(); }) }; }, 0);
      if (mine()) sequence_histories<ipr::Decl>("scope-members", depth, [&](I::Lexicon& lex, I::Translation_unit& u) { auto* r = u.global_region()->make_subregion();
         return std::pair{ std::function<const ipr::Decl*(int)>([r, &lex, name](int i) { return r->declare_var(name(lex, i), lex.int_type()); }), std::function<const ipr::Sequence<ipr::Decl>&()>([r]() -> const ipr::Sequence<ipr::Decl>& { return static_cast<const ipr::Region&>(*r).bindings().elements(); }) }; }, 0);
      if (mine()) sequence_histories<ipr::Decl>("redeclaration-set", depth, [&](I::Lexicon& lex, I::Translation_unit& u) { auto* r = u.global_region()->make_subregion(); auto* first = r->declare_var(lex.get_identifier(u8"x"), lex.int_type());
         return std::pair{ std::function<const ipr::Decl*(int)>([r, &lex](int) { return static_cast<const ipr::Decl*>(r->declare_var(lex.get_identifier(u8"x"), lex.int_type())); }), std::function<const ipr::Sequence<ipr::Decl>&()>([first]() -> const ipr::Sequence<ipr::Decl>& { return static_cast<const ipr::Decl&>(*first).decl_set(); }) }; }, 0);
      if (mine()) sequence_histories<ipr::Expr>("block-body", depth, [&](I::Lexicon& lex, I::Translation_unit& u) { auto* b = lex.make_block(*u.global_region());
         return std::pair{ std::function<const ipr::Expr*(int)>([b, &lex](int) { const ipr::Expr* s = lex.make_break(); b->add_stmt(*s); return s; }), std::function<const ipr::Sequence<ipr::Expr>&()>([b]() -> const ipr::Sequence<ipr::Expr>& { return static_cast<const ipr::Block&>(*b).body(); }) }; }, 0);
   }

   void util_string()
   {
      ipr::util::string::arena arena;
      for (std::ptrdiff_t n : { 0, 1, 8, 9, 24, 25 }) {
         std::u8string w(std::size_t(n), u8'x');
         const ipr::util::string* s = arena.make_string(w.data(), n);
         current = "util::string of length " + std::to_string(n);
         for (std::ptrdiff_t i : { std::ptrdiff_t(-1), std::ptrdiff_t(0), n - 1, n, n + 1, n + 16, std::ptrdiff_t(1) << 40 }) {
            rep.count("transitions");
            bool in = i >= 0 and i < n;
            try {
               char ch = (*s)[i];
               if (not in) rep.violation("C14:util-string:index-out-of-range-returned", n, "util::string::operator[] returned for index " + std::to_string(i) + " of a string of length " + std::to_string(n), "{\"pass\":\"C14\",\"ops\":[]}");
               else if (ch != 'x') rep.violation("C14:util-string:wrong-character", n, "util::string::operator[] returned a wrong character", "{\"pass\":\"C14\",\"ops\":[]}");
            }
            catch (const std::logic_error&) {
               if (in) rep.violation("C14:util-string:index-in-range-refused", n, "util::string::operator[] refused index " + std::to_string(i) + " of a string of length " + std::to_string(n), "{\"pass\":\"C14\",\"ops\":[]}");
            }
         }
         rep.count("states");
      }
   }
}

int main(int argc, char** argv)
{
   opt = vf::parse_options(argc, argv);
   vf::install_crash_handler(opt, "C14");
   vf::crash_describe = describe_current;
   verbose = not opt.replay.empty();
   if (verbose) {
      auto ops = vf::json_int_array(vf::slurp(opt.replay), "ops");
      int rot = ops.empty() ? 0 : int(ops[0]);
      std::printf("replay C14: operand rotation %d, table sweep and partial states\n", rot);
      table(rot);
      partial_states(rot);
      util_string();
      if (vf::slurp(opt.replay).find("sequence-history") != std::string::npos) for (int k = 0; k < 11; ++k) all_sequence_histories(5, k);
      for (auto& [k, v] : rep.viols) std::printf("violated: %s  (%s)\n", k.c_str(), v.what.c_str());
      return rep.viols.empty() ? 0 : 1;
   }
   int job = 0;
   const int rots = opt.thorough() ? 12 : 4;
   for (int rot = 0; rot < rots; ++rot) {
      if (opt.mine(job++)) table(rot);
      if (opt.mine(job++)) partial_states(rot);
   }
   for (int k = 0; k < 11; ++k) if (opt.mine(job++)) all_sequence_histories(opt.thorough() ? 5 : 4, k);
   if (opt.shard == 0) {
      util_string();
      rep.info("space", vf::JObj{}.num("factory_rows", (long long) zoo::rows().size()).num("operand_rotations", rots).str("states_per_entry", "as built; after its row set its links; after the table was built twice")
                           .str("sequence_indices", "0..size()-1, size(), size()+1, size()+2, SIZE_MAX, SIZE_MAX/2, 2^32+size(), plus forward iteration").done());
      rep.sample(vf::JObj{}.str("state", "For with {init inc } set").str("checked", "initializer/condition/increment/body/type + every Stmt accessor: returns or throws logic_error").done());
      rep.sample(vf::JObj{}.str("state", "make_lambda (Lambda) as built").str("checked", "type(), result(), parameters(), target(), captures()[0..size+2, SIZE_MAX] ...").done());
   }
   rep.write(opt);
   return 0;
}
