// C08 — the ordered-set utility stays a valid red-black tree for any insertions.
// Exhaustive over all permutations of n distinct keys and all duplicate-bearing sequences up to a bound, for both
// tree flavours (owning rb_tree::container<T>, intrusive rb_tree::chain<Node>) and three comparators; then
// deterministic adversarial long sequences.  After EVERY insertion the whole tree is re-validated.
#include <algorithm>
#include <array>
#include <cmath>
#include <cstdint>
#include <functional>
#include <numeric>
#include <string>
#include <unordered_set>
#include <vector>

#include <ipr/utility>

#include "envctl.hpp"
#include "report.hpp"

namespace rb = ipr::util::rb_tree;

namespace {
   vf::Report rep;
   vf::Options opt;
   bool verbose = false;

   // ---- comparators (library convention: cmp(stored, key) < 0  <=>  stored orders before key) ----
   inline int cmp3(long a, long b) { return a < b ? -1 : (a > b ? 1 : 0); }

   struct Elem { int pad[3]; };                 // address comparator: keys are addresses of array elements
   Elem elems[1 << 19];

   struct AddrKey {
      const Elem* p;
   };
   inline int compare(const Elem& a, const Elem& b)
   {
      constexpr std::less<> lt{};
      return lt(&a, &b) ? -1 : (lt(&b, &a) ? 1 : 0);
   }

   // Lexicographic comparator: a key k is the sequence of the base-3 digits of k+offset, most significant first,
   // so that key order == sequence order under util::lexicographical_compare when lengths are equal;
   // different lengths exercise the prefix rule.
   struct SeqKey {
      std::array<signed char, 14> d{};
      int n = 0;
      const signed char* begin() const { return d.data(); }
      const signed char* end() const { return d.data() + n; }
   };
   // A monotone embedding of integers into sequences of varying length: write k in binary, MSB first, then
   // map bit b to digit 2b (0 or 2) and terminate with the digit 1.  a < b  <=>  seq(a) <lex seq(b) is NOT true in
   // general for binary strings of different length, therefore the harness does not rely on it: the order used by
   // the oracle is always the comparator itself, and integer keys are only names.
   SeqKey seq_of(long k)
   {
      SeqKey s;
      // digits of k in base 3, variable length (no padding) so that proper prefixes occur: "1", "1 0", "1 0 2"...
      long v = k;
      signed char tmp[14];
      int n = 0;
      do { tmp[n++] = static_cast<signed char>(v % 3); v /= 3; } while (v != 0 and n < 13);
      for (int i = 0; i < n; ++i) s.d[i] = tmp[n - 1 - i];
      s.n = n;
      return s;
   }
   inline int compare(const SeqKey& a, const SeqKey& b)
   {
      return ipr::util::lexicographical_compare{}(a.begin(), a.end(), b.begin(), b.end(),
                                                  [](signed char x, signed char y) { return cmp3(x, y); });
   }

   // CWide: a comparator whose result is a 64-bit difference far outside the range of int (the trees take `auto` for the
   // result and only look at its sign, so such a comparator is admissible)
   enum Cmp { CInt, CAddr, CLex, CWide, NCmp };
   const char* cmp_name[] = { "int", "addr", "lex", "wide" };

   // ---- generic validation of a red-black tree rooted at `root` ----
   template<class N, class KeyOf, class Comp>
   struct Validator {
      KeyOf key_of;
      Comp comp;          // comp(a_key, b_key) on key values
      std::string fail;   // first failure kind
      long nodes = 0;
      int height = 0;
      std::string shape;

      int walk(N* n, N* parent, int depth)
      {
         if (n == nullptr) return 1;            // black height of a null leaf
         ++nodes;
         height = std::max(height, depth);
         if (n->arm[rb::link<N>::Parent] != parent and fail.empty()) fail = "parent-link";
         bool red = n->color == rb::Color::Red;
         N* l = n->arm[rb::link<N>::Left];
         N* r = n->arm[rb::link<N>::Right];
         if (red and fail.empty()) {
            if ((l and l->color == rb::Color::Red) or (r and r->color == rb::Color::Red)) fail = "red-red";
         }
         if (l and fail.empty() and not(comp(key_of(n), key_of(l)) < 0 and comp(key_of(l), key_of(n)) > 0)) fail = "bst-order";
         if (r and fail.empty() and not(comp(key_of(n), key_of(r)) > 0 and comp(key_of(r), key_of(n)) < 0)) fail = "bst-order";
         shape += red ? 'r' : 'b';
         shape += '(';
         int bl = walk(l, n, depth + 1);
         shape += ',';
         int br = walk(r, n, depth + 1);
         shape += ')';
         if (bl != br and fail.empty()) fail = "black-height";
         return bl + (red ? 0 : 1);
      }

      // in-order strict monotonicity (catches violations between non-adjacent levels)
      void inorder(N* n, std::vector<N*>& out)
      {
         if (n == nullptr) return;
         inorder(n->arm[rb::link<N>::Left], out);
         out.push_back(n);
         inorder(n->arm[rb::link<N>::Right], out);
      }

      std::string run(N* root, long expect_nodes)
      {
         fail.clear();
         nodes = 0;
         height = 0;
         shape.clear();
         if (root == nullptr) {
            if (expect_nodes != 0) fail = "size";
            return fail;
         }
         if (root->color != rb::Color::Black) fail = "root-red";
         if (root->arm[rb::link<N>::Parent] != nullptr and fail.empty()) fail = "root-parent";
         walk(root, nullptr, 1);
         if (fail.empty() and nodes != expect_nodes) fail = "node-count";
         if (fail.empty() and height > 2 * std::log2(double(nodes) + 1) + 1e-9) fail = "height-bound";
         if (fail.empty()) {
            std::vector<N*> seq;
            inorder(root, seq);
            // stored < key  => go left, so an in-order walk visits keys in DESCENDING comparator order.
            for (std::size_t i = 1; i < seq.size() and fail.empty(); ++i)
               if (not(comp(key_of(seq[i - 1]), key_of(seq[i])) > 0)) fail = "bst-order";
         }
         return fail;
      }
   };

   std::unordered_set<std::uint64_t> shapes_seen;

   void note_shape(const std::string& s)
   {
      vf::Persist guard;
      if (shapes_seen.size() < 2000000) shapes_seen.insert(vf::fnv(s));
   }

   // ---- owning flavour ----
   template<class T>
   struct Own : rb::container<T> {
      using N = rb::node<T>;
      N* root_() const { return this->root; }
   };

   // ---- intrusive flavour ----
   struct INode : rb::link<INode> {
      long key = 0;
   };
   struct Chain : rb::chain<INode> {
      INode* root_() const { return this->root; }
   };

   struct Witness {
      const char* flavour;
      Cmp cmp;
      const std::vector<long>* seq;
      std::size_t step;
   };

   // execution in progress, for the crash handler
   struct { const char* flavour = ""; int cmp = 0; const std::vector<long>* seq = nullptr; std::size_t step = 0; } cur;

   void describe_current(char* buf, std::size_t n)
   {
      std::size_t used = std::snprintf(buf, n, "\"pass\":\"C08\",\"flavour\":\"%s\",\"cmp\":%d,\"step\":%zu,\"ops\":[", cur.flavour, cur.cmp, cur.step);
      if (cur.seq)
         for (std::size_t i = 0; i < cur.seq->size() and i < 64 and used + 32 < n; ++i)
            used += std::snprintf(buf + used, n - used, "%s%ld", i ? "," : "", (*cur.seq)[i]);
      std::snprintf(buf + used, n - used, "]");
   }

   void fail(const Witness& w, const std::string& kind, const std::string& detail)
   {
      std::string key = std::string("C08:") + w.flavour + ":" + cmp_name[w.cmp] + ":" + kind;
      std::vector<long> s(w.seq->begin(), w.seq->begin() + std::min(w.seq->size(), std::size_t(64)));
      vf::Persist guard;
      rep.violation(key, static_cast<long long>(w.seq->size()) * 1000 + w.step,
                    kind + " after insertion #" + std::to_string(w.step) + " " + detail,
                    vf::JObj{}.str("pass", "C08").str("flavour", w.flavour).num("cmp", w.cmp).raw("ops", vf::jarr(s))
                       .num("seq_len", w.seq->size()).num("step", w.step).done());
      if (verbose) std::printf("  VIOLATION %s: %s\n", key.c_str(), detail.c_str());
   }

   // Key value compare, by comparator family, on integer key names.
   long long key_compare(Cmp c, long a, long b)
   {
      switch (c) {
      case CInt: return cmp3(a, b);
      case CWide: return (static_cast<long long>(a) - b) * (3LL << 30);
      case CAddr: return compare(elems[a], elems[b]);
      default: return compare(seq_of(a), seq_of(b));
      }
   }

   // Run one insertion sequence on the owning flavour.  `universe` = keys to probe for absence/presence.
   // check_every: validate after each insertion (true) or only at checkpoints.
   template<Cmp C>
   void run_owning(const std::vector<long>& seq, const std::vector<long>& universe, bool check_every)
   {
      using T = std::conditional_t<C == CInt or C == CWide, long, std::conditional_t<C == CAddr, AddrKey, SeqKey>>;
      auto make_key = [](long k) -> T {
         if constexpr (C == CInt or C == CWide) return k;
         else if constexpr (C == CAddr) return AddrKey{ &elems[k] };
         else return seq_of(k);
      };
      auto cmp = [](const T& a, const T& b) -> long long {
         if constexpr (C == CInt) return cmp3(a, b);
         else if constexpr (C == CWide) return (static_cast<long long>(a) - b) * (3LL << 30);
         else if constexpr (C == CAddr) return compare(*a.p, *b.p);
         else return compare(a, b);
      };
      Own<T> tree;
      using N = typename Own<T>::N;
      auto key_of = [](N* n) -> const T& { return n->data; };
      Validator<N, decltype(key_of), decltype(cmp)> val{ key_of, cmp, {}, 0, 0, {} };
      std::vector<char> present(universe.empty() ? 0 : *std::max_element(universe.begin(), universe.end()) + 1, 0);
      std::vector<T*> where(present.size(), nullptr);
      long distinct = 0;
      for (std::size_t i = 0; i < seq.size(); ++i) {
         long k = seq[i];
         Witness w{ "owning", C, &seq, i };
         cur = { "owning", C, &seq, i };
         bool was = k < long(present.size()) and present[k];
         std::string before;
         if (was and check_every) { val.run(tree.root_(), distinct); before = val.shape; }
         T* got = tree.insert(make_key(k), cmp);
         rep.count("transitions");
         if (got == nullptr) { fail(w, "insert-null", ""); return; }
         if (cmp(*got, make_key(k)) != 0) { fail(w, "insert-wrong-element", "returned element differs from key"); return; }
         if (was) {
            if (got != where[k]) fail(w, "dup-returned-new", "inserting an equal key did not return the existing element");
         }
         else {
            ++distinct;
            if (k < long(present.size())) { present[k] = 1; where[k] = got; }
         }
         bool checkpoint = check_every or i + 1 == seq.size() or ((i + 1) & i) == 0 or ((i + 2) & (i + 1)) == 0;
         if (not checkpoint) continue;
         auto f = val.run(tree.root_(), distinct);
         if (not f.empty()) { fail(w, f, "shape=" + val.shape.substr(0, 200)); return; }
         if (was and check_every and before != val.shape) fail(w, "dup-changed-shape", "");
         if (tree.size() != distinct) fail(w, "size", "size()=" + std::to_string(tree.size()) + " distinct=" + std::to_string(distinct));
         note_shape(val.shape);
         if (check_every or i + 1 == seq.size()) {
            for (long u : universe) {
               T* f2 = tree.find(make_key(u), cmp);
               rep.count("finds");
               if (present[u] and f2 != where[u]) { fail(w, "inserted-not-found", "key " + std::to_string(u)); return; }
               if (not present[u] and f2 != nullptr) { fail(w, "absent-found", "key " + std::to_string(u)); return; }
            }
         }
      }
      rep.count("traces");
      rep.count("states", static_cast<long long>(seq.size()));
   }

   template<Cmp C>
   void run_chain(const std::vector<long>& seq, const std::vector<long>& universe, bool check_every)
   {
      auto kcmp = [](long a, long b) { return key_compare(C, a, b); };
      auto node_cmp = [&](const INode& a, const INode& b) { return kcmp(a.key, b.key); };
      auto find_cmp = [&](const INode& a, long key) { return kcmp(a.key, key); };
      Chain tree;
      std::vector<INode> nodes(seq.size());
      auto key_of = [](INode* n) { return n->key; };
      Validator<INode, decltype(key_of), decltype(kcmp)> val{ key_of, kcmp, {}, 0, 0, {} };
      std::vector<char> present(universe.empty() ? 0 : *std::max_element(universe.begin(), universe.end()) + 1, 0);
      std::vector<INode*> where(present.size(), nullptr);
      long distinct = 0;
      for (std::size_t i = 0; i < seq.size(); ++i) {
         long k = seq[i];
         Witness w{ "chain", C, &seq, i };
         cur = { "chain", C, &seq, i };
         nodes[i].key = k;
         bool was = k < long(present.size()) and present[k];
         INode* got = tree.insert(&nodes[i], node_cmp);
         rep.count("transitions");
         if (got != &nodes[i]) fail(w, "insert-return", "chain::insert did not return its argument");
         if (not was) {
            ++distinct;
            if (k < long(present.size())) { present[k] = 1; where[k] = &nodes[i]; }
         }
         bool checkpoint = check_every or i + 1 == seq.size() or ((i + 1) & i) == 0 or ((i + 2) & (i + 1)) == 0;
         if (not checkpoint) continue;
         auto f = val.run(tree.root_(), distinct);
         if (not f.empty()) { fail(w, f, "shape=" + val.shape.substr(0, 200)); return; }
         note_shape(val.shape);
         if (check_every or i + 1 == seq.size()) {
            for (long u : universe) {
               INode* f2 = tree.find(u, find_cmp);
               rep.count("finds");
               if (present[u] and (f2 == nullptr or f2->key != u)) { fail(w, "inserted-not-found", "key " + std::to_string(u)); return; }
               if (present[u] and f2 != where[u]) { fail(w, "found-other-node", "key " + std::to_string(u)); return; }
               if (not present[u] and f2 != nullptr) { fail(w, "absent-found", "key " + std::to_string(u)); return; }
            }
         }
      }
      rep.count("traces");
      rep.count("states", static_cast<long long>(seq.size()));
   }

   void run_all(const std::vector<long>& seq, const std::vector<long>& universe, bool check_every, int cmps = 7, int flavours = 3)
   {
      using vf::env::Alloc;
      // Tree nodes come from the arena so that enumerating millions of trees does not depend on the container
      // ever freeing them.
      vf::env::set_alloc(Alloc::Ascending);
      if (flavours & 1) {
         if (cmps & 1) { opt.kick(); run_owning<CInt>(seq, universe, check_every); }
         if (cmps & 2) { opt.kick(); run_owning<CAddr>(seq, universe, check_every); }
         if (cmps & 4) { opt.kick(); run_owning<CLex>(seq, universe, check_every); }
         if (cmps & 1) { opt.kick(); run_owning<CWide>(seq, universe, check_every); }
      }
      if (flavours & 2) {
         if (cmps & 1) { opt.kick(); run_chain<CInt>(seq, universe, check_every); }
         if (cmps & 2) { opt.kick(); run_chain<CAddr>(seq, universe, check_every); }
         if (cmps & 4) { opt.kick(); run_chain<CLex>(seq, universe, check_every); }
         if (cmps & 1) { opt.kick(); run_chain<CWide>(seq, universe, check_every); }
      }
      vf::env::set_alloc(Alloc::Malloc);
      vf::env::arena_reset();
   }

   // The lexicographic comparator itself must be a total order on the sequences used: all triples of sequences
   // of length <= 3 over 3 symbols (40 sequences).
   void check_lex_totality()
   {
      std::vector<SeqKey> all;
      for (int n = 0; n <= 3; ++n) {
         int count = 1;
         for (int i = 0; i < n; ++i) count *= 3;
         for (int v = 0; v < count; ++v) {
            SeqKey s;
            s.n = n;
            int x = v;
            for (int i = n - 1; i >= 0; --i) { s.d[i] = static_cast<signed char>(x % 3); x /= 3; }
            all.push_back(s);
         }
      }
      std::vector<long> none;
      Witness w{ "lexcmp", CLex, &none, 0 };
      auto same = [](const SeqKey& a, const SeqKey& b) { return a.n == b.n and std::equal(a.begin(), a.end(), b.begin()); };
      for (auto& a : all)
         for (auto& b : all) {
            int ab = compare(a, b), ba = compare(b, a);
            rep.count("lex_pairs");
            if ((ab == 0) != same(a, b)) fail(w, "lex-equality", "compare()==0 disagrees with element-wise equality");
            if ((ab < 0) != (ba > 0) or (ab > 0) != (ba < 0)) fail(w, "lex-antisymmetry", "");
            bool prefix = a.n < b.n and std::equal(a.begin(), a.end(), b.begin());
            if (prefix and not(ab < 0)) fail(w, "lex-prefix-rule", "a proper prefix must order first");
            for (auto& c : all) {
               rep.count("lex_triples");
               if (ab < 0 and compare(b, c) < 0 and not(compare(a, c) < 0)) fail(w, "lex-transitivity", "");
            }
         }
   }

   // ---- enumeration ----
   void all_permutations(int n)
   {
      std::vector<long> keys(n);
      for (int i = 0; i < n; ++i) keys[i] = 2 * i + 1;
      std::vector<long> universe(2 * n + 1);
      std::iota(universe.begin(), universe.end(), 0);
      long long idx = 0;
      std::vector<long> perm = keys;
      do {
         // shard on (first key, second key)
         long long sh = perm[0] / 2 * n + (n > 1 ? perm[1] / 2 : 0);
         if (opt.mine(sh)) {
            run_all(perm, universe, true);
            if ((++idx & 0xfff) == 0 and opt.expired()) { rep.cap("deadline during permutations n=" + std::to_string(n)); return; }
         }
      } while (std::next_permutation(perm.begin(), perm.end()));
      if (opt.shard == 0) rep.maxi("max_perm_n", n);
   }

   void all_sequences(int len, int nkeys)
   {
      std::vector<long> universe(2 * nkeys + 1);
      std::iota(universe.begin(), universe.end(), 0);
      std::vector<long> seq(len, 1);
      long long total = 1;
      for (int i = 0; i < len; ++i) total *= nkeys;
      for (long long v = 0; v < total; ++v) {
         if (not opt.mine(v)) continue;
         long long x = v;
         bool dup = false;
         unsigned seen = 0;
         for (int i = 0; i < len; ++i) {
            int k = int(x % nkeys);
            x /= nkeys;
            seq[i] = 2 * k + 1;
            if (seen & (1u << k)) dup = true;
            seen |= 1u << k;
         }
         if (not dup) continue;            // duplicate-free sequences are covered by the permutation sweep
         run_all(seq, universe, true);
         if ((v & 0xfff) == 0 and opt.expired()) { rep.cap("deadline during duplicate sequences"); return; }
      }
   }

   std::vector<long> order(const std::string& name, long n, long long seed)
   {
      std::vector<long> s(n);
      if (name == "ascending") std::iota(s.begin(), s.end(), 0);
      else if (name == "descending") { std::iota(s.begin(), s.end(), 0); std::reverse(s.begin(), s.end()); }
      else if (name == "organ-pipe") { long lo = 0, hi = n - 1; for (long i = 0; i < n; ++i) s[i] = (i % 2 == 0) ? lo++ : hi--; std::reverse(s.begin(), s.end()); }
      else if (name == "alternating-extremes") { long lo = 0, hi = n - 1; for (long i = 0; i < n; ++i) s[i] = (i % 2 == 0) ? lo++ : hi--; }
      else if (name == "bit-reversed") {
         int bits = 0;
         while ((1L << bits) < n) ++bits;
         long j = 0;
         for (long i = 0; i < (1L << bits) and j < n; ++i) {
            long r = 0;
            for (int b = 0; b < bits; ++b) if (i & (1L << b)) r |= 1L << (bits - 1 - b);
            if (r < n) s[j++] = r;
         }
      }
      else if (name == "sawtooth") { long w = 7, j = 0; for (long b = 0; b < n; b += w) for (long i = std::min(n, b + w) - 1; i >= b; --i) s[j++] = i; }
      else if (name == "middle-out") { long mid = n / 2, j = 0; s[j++] = mid; for (long d = 1; j < n; ++d) { if (mid - d >= 0) s[j++] = mid - d; if (mid + d < n and j < n) s[j++] = mid + d; } }
      else {   // supplementary pseudo-random order (seeded); never the basis of a coverage claim
         std::iota(s.begin(), s.end(), 0);
         std::uint64_t x = 0x9E3779B97F4A7C15ull ^ std::uint64_t(seed);
         for (long i = n - 1; i > 0; --i) {
            x ^= x << 13; x ^= x >> 7; x ^= x << 17;
            std::swap(s[i], s[x % (i + 1)]);
         }
      }
      return s;
   }

   void long_sequences(long n)
   {
      static const char* names[] = { "ascending", "descending", "organ-pipe", "alternating-extremes", "bit-reversed",
                                     "sawtooth", "middle-out", "pseudo-random(supplementary)" };
      int idx = 0;
      for (auto name : names) {
         if (not opt.mine(idx++)) continue;
         auto s = order(name, n, opt.seed);
         // keys are 2k+1 so that even numbers are never inserted; add a second round of the same keys (all
         // duplicates) at the end.
         std::vector<long> seq;
         for (long k : s) seq.push_back(2 * k + 1);
         for (long i = 0; i < std::min<long>(n, 512); ++i) seq.push_back(2 * s[i] + 1);
         std::vector<long> universe;
         for (long k = 0; k <= 2 * n; k += std::max<long>(1, n / 2048)) universe.push_back(k);
         universe.push_back(0);
         universe.push_back(2 * n);
         for (long k : s) if (k % std::max<long>(1, n / 1024) == 0) universe.push_back(2 * k + 1);
         std::sort(universe.begin(), universe.end());
         universe.erase(std::unique(universe.begin(), universe.end()), universe.end());
         bool every = n <= 2048;
         // the lexicographic embedding only has 13 base-3 digits: ok up to 1.5 million.
         run_all(seq, universe, every, 7, 3);
         rep.member("long_orders", std::string(name) + ":" + std::to_string(n));
         if (opt.expired()) { rep.cap("deadline during long sequences"); return; }
      }
   }
}

int main(int argc, char** argv)
{
   opt = vf::parse_options(argc, argv);
   vf::install_crash_handler(opt, "C08");
   vf::crash_describe = describe_current;
   if (not opt.replay.empty()) {
      verbose = true;
      auto text = vf::slurp(opt.replay);
      auto ops = vf::json_int_array(text, "ops");
      std::vector<long> seq(ops.begin(), ops.end());
      long mx = 0;
      for (long k : seq) mx = std::max(mx, k);
      std::vector<long> universe(mx + 2);
      std::iota(universe.begin(), universe.end(), 0);
      std::printf("replay C08: %zu insertions, keys up to %ld\n", seq.size(), mx);
      run_all(seq, universe, true);
      for (auto& [k, v] : rep.viols) std::printf("violated: %s  (%s)\n", k.c_str(), v.what.c_str());
      return rep.viols.empty() ? 0 : 1;
   }

   const bool deep = opt.thorough();
   const int max_perm = deep ? 10 : 8;
   check_lex_totality();
   for (int n = 1; n <= max_perm and not opt.expired(); ++n) all_permutations(n);
   // duplicate-bearing sequences
   for (int len = 2; len <= (deep ? 8 : 7) and not opt.expired(); ++len) all_sequences(len, 4);
   for (int len = 2; len <= (deep ? 8 : 6) and not opt.expired(); ++len) all_sequences(len, 5);
   for (long n : deep ? std::vector<long>{ 100, 1000, 2048, 20000, 200000 } : std::vector<long>{ 100, 1000, 2048, 20000 })
      if (not opt.expired()) long_sequences(n);

   rep.count("distinct_shape_colourings_this_shard", static_cast<long long>(shapes_seen.size()));
   for (auto h : shapes_seen) rep.member("outcomes", std::to_string(h));
   if (opt.shard == 0) {
      rep.info("bounds", vf::JObj{}.num("max_permutation_length", max_perm).str("duplicate_sequences", deep ? "len<=8 over 4 keys, len<=8 over 5 keys" : "len<=7 over 4 keys, len<=6 over 5 keys")
                            .str("comparators", "int, address-of-array-element, util::lexicographical_compare over digit sequences")
                            .str("flavours", "rb_tree::container (owning), rb_tree::chain (intrusive)").done());
      rep.sample(vf::JObj{}.str("kind", "permutation").raw("insert", "[5,1,3,7]").str("checked", "all invariants + finds of 0..8 after each insertion, 3 comparators x 2 flavours").done());
      rep.sample(vf::JObj{}.str("kind", "duplicates").raw("insert", "[1,3,1,1,5,3]").str("checked", "equal key returns existing element; shape and size unchanged").done());
      rep.sample(vf::JObj{}.str("kind", "long").str("order", "bit-reversed").num("n", 20000).done());
   }
   rep.write(opt);
   return 0;
}
