// C19 — destroying a Lexicon frees all its memory; live use never touches dead storage.
// (1) EVERY history up to a depth bound over an alphabet with at least one operation per table / farm / list family
//     (string pool incl. oversize words, name trees, type trees, expression trees, farms, member lists, scopes with
//     redeclaration, user-defined types, blocks with handlers, lambdas, pragmas, declarator forms, sub-regions,
//     module units, substitutions, printing) is executed on a fresh Lexicon + units, which are then destroyed in the
//     order the language prescribes (units and modules before their Lexicon).  Oracle: EXACT accounting by the
//     replaced operator new/delete (engine/envctl): live blocks and live bytes after destruction equal the counts
//     before construction, and no delete was issued for a pointer that was not live.
// (2) chains of 50 Lexicons, two alive at any time, each filled by a different depth-2 history; the balance is
//     checked whenever exactly one is alive (against its measured stand-alone footprint) and at the end.
// The same executable built with ASan+UBSan runs the same histories: a stale read or write during live use or
// during destruction aborts the shard and the crash handler names the history.
#include <cstdio>
#include <memory>
#include <sstream>
#include <string>
#include <vector>

#include <ipr/impl>
#include <ipr/io>
#include <ipr/traversal>

#include "envctl.hpp"
#include "report.hpp"

namespace {
   vf::Report rep;
   vf::Options opt;
   bool verbose = false;

   struct World {
      ipr::impl::Lexicon lex;
      std::unique_ptr<ipr::impl::Translation_unit> tu;
      std::unique_ptr<ipr::impl::Module> module;
      ipr::impl::Region* global = nullptr;
      int counter = 0;

      World()
      {
         tu = std::make_unique<ipr::impl::Translation_unit>(lex);
         global = tu->global_region();
      }
      // members are destroyed in reverse order: module, unit, then the Lexicon

      std::u8string word(const char8_t* stem) { return std::u8string(stem) + char8_t('a' + counter++ % 26) + char8_t('a' + counter / 26 % 26); }
      const ipr::Identifier& fresh() { return lex.get_identifier(word(u8"n")); }
      const ipr::Expr& lit(int k) { return *lex.make_literal(lex.int_type(), k ? u8"1" : u8"0"); }
   };

   std::vector<int> current_history;

   using OpFn = void (*)(World&);
   struct OpDef { const char* name; OpFn run; };

   const OpDef ops[] = {
      { "string-pool", [](World& w) {
           (void) w.lex.get_string(w.word(u8"a-word-that-does-not-fit-the-inline-header-"));
           (void) w.lex.get_string(u8"int");
           (void) w.lex.get_string(u8""); } },
      { "string-pool-oversize", [](World& w) {
           std::u8string big(std::size_t(1) << 21, u8'x');        // larger than one pool: own allocation
           big[7] = char8_t('a' + w.counter++ % 26);
           (void) w.lex.get_string(big);
           std::u8string mid(600000, u8'y');                     // two of these force a pool roll-over
           mid[3] = char8_t('a' + w.counter++ % 26);
           (void) w.lex.get_string(mid);
           mid[4] = u8'!';
           (void) w.lex.get_string(mid); } },
      { "identifier", [](World& w) { auto& a = w.fresh(); (void) w.lex.get_identifier(a.string()); (void) w.lex.get_identifier(u8"int"); } },
      { "names", [](World& w) {
           (void) w.lex.get_operator(u8"+"); (void) w.lex.get_operator(u8"()");
           (void) w.lex.get_suffix(w.fresh());
           (void) w.lex.get_conversion(w.lex.int_type());
           (void) w.lex.get_ctor_name(w.lex.char_type());
           (void) w.lex.get_dtor_name(w.lex.char_type());
           (void) w.lex.get_logogram(w.lex.get_string(w.word(u8"logo"))); } },
      { "pointer-tower", [](World& w) {
           const ipr::Type* t = &w.lex.int_type();
           for (int i = 0; i < 5; ++i) t = &w.lex.get_pointer(*t);
           (void) w.lex.get_reference(*t); (void) w.lex.get_rvalue_reference(*t);
           (void) w.lex.get_array(*t, w.lit(1)); } },
      { "qualified", [](World& w) {
           auto& p = w.lex.get_pointer(w.lex.char_type());
           (void) w.lex.get_qualified(w.lex.const_qualifier(), p);
           (void) w.lex.get_qualified(w.lex.volatile_qualifier(), w.lex.get_qualified(w.lex.const_qualifier(), p)); } },
      { "product-sum", [](World& w) {
           ipr::impl::Warehouse<ipr::Type> wh;
           wh.push_back(w.lex.int_type()); wh.push_back(w.lex.char_type()); wh.push_back(w.lex.get_pointer(w.lex.int_type()));
           auto& p = w.lex.get_product(wh);
           auto& s = w.lex.get_sum(wh);
           (void) w.lex.get_product(p.operand()); (void) w.lex.get_sum(s.operand());
           ipr::impl::Warehouse<ipr::Type> empty;
           (void) w.lex.get_product(empty); } },
      { "function-types", [](World& w) {
           ipr::impl::Warehouse<ipr::Type> wh;
           wh.push_back(w.lex.int_type());
           auto& p = w.lex.get_product(wh);
           (void) w.lex.get_function(p, w.lex.void_type());
           (void) w.lex.get_function(p, w.lex.void_type(), w.lex.true_value());
           auto& x = w.lex.get_transfer(w.lex.get_linkage(u8"Java"), w.lex.get_calling_convention(u8"fastcall"));
           (void) w.lex.get_function(p, w.lex.int_type(), x);
           (void) w.lex.get_function(p, w.lex.int_type(), *w.lex.make_noexcept(w.lit(0)), x);
           (void) w.lex.get_forall(p, w.lex.class_type());
           (void) w.lex.get_ptr_to_member(w.lex.int_type(), w.lex.char_type());
           ipr::impl::Warehouse<ipr::Type> sw;
           sw.push_back(w.lex.int_type());
           (void) w.lex.get_tor(p, w.lex.get_sum(sw)); } },
      { "as-type-decltype-auto", [](World& w) {
           auto& e = *w.lex.make_id_expr(w.fresh());
           (void) w.lex.get_as_type(e);
           (void) w.lex.get_as_type(e, w.lex.get_transfer_from_linkage(w.lex.c_linkage()));
           (void) w.lex.get_as_type(w.fresh());
           (void) w.lex.get_decltype(e);
           (void) w.lex.get_auto(); } },
      { "transfer-linkage", [](World& w) {
           (void) w.lex.get_linkage(w.word(u8"L"));
           (void) w.lex.get_calling_convention(w.word(u8"cc"));
           (void) w.lex.get_transfer_from_convention(w.lex.get_calling_convention(u8"stdcall"));
           (void) w.lex.get_transfer_from_linkage(w.lex.get_linkage(u8"C++")); } },
      { "literal-template-id", [](World& w) {
           (void) w.lex.get_literal(w.lex.int_type(), w.word(u8"7"));
           (void) w.lex.get_literal(w.lex.int_type(), u8"7");
           auto* l = w.lex.make_expr_list();
           l->push_back(&w.lit(0)); l->push_back(&w.lit(1));
           (void) w.lex.get_template_id(*w.lex.make_id_expr(w.fresh()), *l);
           (void) w.lex.make_template_id(*w.lex.make_id_expr(w.fresh()), *l); } },
      { "symbols", [](World& w) {
           (void) w.lex.get_symbol(w.fresh(), w.lex.int_type());
           (void) w.lex.get_label(w.fresh());
           (void) w.lex.get_this(w.lex.get_pointer(w.lex.char_type())); } },
      { "expression-farms", [](World& w) {
           auto& a = w.lit(0); auto& b = w.lit(1);
           auto* l = w.lex.make_expr_list();
           for (int i = 0; i < 9; ++i) l->push_back(&a);
           (void) w.lex.make_call(*w.lex.make_plus(a, b, w.lex.int_type()), *l);
           (void) w.lex.make_conditional(a, b, a);
           (void) w.lex.make_cast(w.lex.int_type(), *w.lex.make_deref(a));
           auto* enc = w.lex.make_enclosure(ipr::Delimiter::Brace, *l);
           (void) w.lex.make_new({ }, *w.lex.make_construction(w.lex.int_type(), *enc));
           (void) w.lex.make_binary_fold(ipr::Category_code::Plus, a, b);
           (void) w.lex.make_phantom(); (void) w.lex.make_phantom(w.lex.int_type()); (void) w.lex.make_eclipsis(w.lex.int_type()); } },
      { "declare-redeclare", [](World& w) {
           auto& n = w.fresh();
           auto* v = w.global->declare_var(n, w.lex.int_type());
           v->init = &w.lit(1);
           (void) w.global->declare_var(n, w.lex.int_type());
           (void) w.global->declare_var(n, w.lex.char_type());
           (void) w.global->declare_alias(w.fresh(), w.lex.int_type());
           (void) w.global->declare_type(w.fresh(), w.lex.class_type()); } },
      { "function-template", [](World& w) {
           ipr::impl::Warehouse<ipr::Type> wh;
           wh.push_back(w.lex.int_type());
           auto& p = w.lex.get_product(wh);
           auto* f = w.global->declare_fun(w.fresh(), w.lex.get_function(p, w.lex.void_type()));
           auto* m = w.lex.make_mapping(*w.global, ipr::Mapping_level{ 0 });
           m->param(w.fresh(), w.lex.int_type());
           m->body = w.lex.make_block(m->inputs.region());
           f->data.emplace<1>(m);
           auto* t = w.global->declare_primary_template(w.fresh(), w.lex.get_forall(p, w.lex.class_type()));
           auto* tm = w.lex.make_mapping(*w.global, ipr::Mapping_level{ 0 });
           tm->param(w.fresh(), w.lex.typename_type());
           t->init = tm;
           (void) w.global->declare_secondary_template(t->name(), w.lex.get_forall(p, w.lex.class_type()));
           (void) w.lex.get_guide_name(*t); } },
      { "class", [](World& w) {
           auto* c = w.lex.make_class(*w.global);
           c->id = &w.fresh();
           c->declare_base(w.lex.int_type()); c->declare_base(w.lex.char_type());
           for (int i = 0; i < 4; ++i) c->declare_field(w.fresh(), w.lex.int_type());
           c->declare_bitfield(w.fresh(), w.lex.int_type())->length = &w.lit(1);
           auto* u = w.lex.make_union(c->body);
           u->declare_var(w.fresh(), w.lex.char_type());
           w.global->declare_type(c->id.get(), w.lex.class_type())->init = c; } },
      { "enum", [](World& w) {
           auto* e = w.lex.make_enum(*w.global, ipr::Enum::Kind::Scoped);
           e->id = &w.fresh();
           for (int i = 0; i < 70; ++i) e->add_member(w.fresh())->init = &w.lit(i & 1); } },
      { "namespace", [](World& w) {
           auto* n = w.lex.make_namespace(*w.global);
           n->id = &w.fresh();
           n->declare_var(w.fresh(), w.lex.int_type());
           auto* inner = w.lex.make_namespace(n->body);
           inner->declare_var(w.fresh(), w.lex.int_type()); } },
      { "block-handlers", [](World& w) {
           auto* b = w.lex.make_block(*w.global);
           b->add_stmt(*w.lex.make_expr_stmt(w.lit(0)));
           b->add_stmt(*w.lex.make_return(w.lit(1)));
           auto* h = b->new_handler(w.fresh(), w.lex.int_type());
           h->body().add_stmt(*w.lex.make_break());
           (void) b->new_handler(w.fresh(), w.lex.ellipsis_type());
           auto* f = w.lex.make_for(); f->init = &w.lit(0); f->stmt = w.lex.make_continue();
           b->add_stmt(*f);
           b->add_stmt(*w.lex.make_if(w.lit(0), *w.lex.make_while(), *w.lex.make_do()));
           b->add_stmt(*w.lex.make_labeled_stmt(w.lit(0), *w.lex.make_goto(w.lit(1))));
           b->add_stmt(*w.lex.make_switch()); b->add_stmt(*w.lex.make_for_in());
           (void) w.lex.make_ctor_body(*w.lex.make_expr_list(), *b); } },
      { "lambda-closure", [](World& w) {
           auto* l = w.lex.make_lambda(*w.global, ipr::Mapping_level{ 1 });
           l->inputs.add_member(w.fresh(), w.lex.int_type());
           auto* c = w.lex.make_closure(*w.global);
           auto* v = w.global->declare_var(w.fresh(), w.lex.int_type());
           c->captures.push_back(*v, ipr::Binding_mode::Copy);
           c->captures.push_back(*v, ipr::Binding_mode::Reference);
           l->typing = c;
           auto* r = w.lex.make_requires(*w.global, ipr::Mapping_level{ 1 });
           r->formals.add_member(w.fresh(), w.lex.typename_type());
           auto* wh = w.lex.make_where(*w.global);
           wh->region.declare_var(w.fresh(), w.lex.int_type());
           (void) w.lex.make_where(w.lit(0), w.lit(1)); } },
      { "directives", [](World& w) {
           auto* p = w.lex.make_pragma();
           for (int i = 0; i < 3; ++i) p->tokens.push_back(w.lex.get_string(w.word(u8"tok")), ipr::Source_location{ }, ipr::TokenValue{ }, ipr::TokenCategory{ });
           auto* u = w.lex.make_using_declaration();
           auto* sr = w.lex.make_scope_ref(w.lit(0), w.lit(1));
           u->seq.push_back(*sr, ipr::Using_declaration::Designator::Mode::Normal);
           (void) w.lex.make_using_declaration(*sr, ipr::Using_declaration::Designator::Mode::Type);
           (void) w.lex.make_using_directive(w.global->scope, w.lex.namespace_type());
           auto* sb = w.lex.make_structured_binding();
           sb->ids.push_back(&w.fresh()); sb->ids.push_back(&w.fresh());
           (void) w.lex.make_specifiers_spread();
           (void) w.lex.make_phased_evaluation(w.lit(0), ipr::Phases::Parsing);
           (void) w.lex.make_asm(w.lex.get_string(u8"nop"));
           (void) w.lex.make_static_assert(w.lit(1), { }); } },
      { "declarator-forms", [](World& w) {
           auto& R = *w.global;
           auto* t = R.make_term_declarator();
           t->tail = R.make_unqualified_id_species(w.fresh());
           (void) R.make_pointer_indirector(w.lex.const_qualifier());
           (void) R.make_reference_indirector(ipr::cxx_form::Reference_flavor::Lvalue);
           (void) R.make_pack_species(); (void) R.make_parenthesized_species();
           auto* fm = R.make_function_morphism(R, ipr::Mapping_level{ 0 });
           fm->inputs.add_member(w.fresh(), w.lex.int_type());
           (void) R.make_array_morphism();
           (void) R.make_braced_provision(); (void) R.make_designated_provision();
           (void) R.make_field_designator(w.fresh()); (void) R.make_slot_designator(w.lit(0));
           (void) R.make_monadic_constraint(w.fresh()); (void) R.make_simple_requirement(w.lit(0)); } },
      { "subregions", [](World& w) {
           auto* r = w.global->make_subregion();
           for (int i = 0; i < 3; ++i) { r = r->make_subregion(); r->declare_var(w.fresh(), w.lex.int_type()); } } },
      { "module-units", [](World& w) {
           if (not w.module) w.module = std::make_unique<ipr::impl::Module>(w.lex);
           auto* u = w.module->make_unit();
           u->global_region()->declare_var(w.fresh(), w.lex.int_type());
           w.module->iface.global_region()->declare_var(w.fresh(), w.lex.char_type());
           w.module->stems.components.push_back(&w.fresh()); } },
      { "substitution", [](World& w) {
           auto* m = w.lex.make_mapping(*w.global, ipr::Mapping_level{ 0 });
           auto* p0 = m->param(w.fresh(), w.lex.int_type());
           auto* p1 = m->param(w.fresh(), w.lex.int_type());
           (void) w.lex.make_elementary_substitution(*p0, w.lit(0));
           auto* g = w.lex.make_general_substitution();
           g->subst(*p0, w.lit(0)).subst(*p1, w.lit(1)).subst(*p0, w.lit(1));
           (void) w.lex.make_instantiation(w.lit(0), *g); } },
      { "bulk-tables", [](World& w) {
           // one-sided trees: 80 spellings in descending and 80 in ascending order, a pointer tower of 60, 60 literals
           char8_t buf[16];
           for (int i = 79; i >= 0; --i) { std::snprintf(reinterpret_cast<char*>(buf), sizeof buf, "d%04d", i); (void) w.lex.get_identifier(buf); }
           for (int i = 0; i < 80; ++i) { std::snprintf(reinterpret_cast<char*>(buf), sizeof buf, "u%04d", i); (void) w.lex.get_identifier(buf); (void) w.lex.get_literal(w.lex.int_type(), buf); }
           // ... and scrambled orders (rank orders that are neither ascending nor descending exercise other rotations)
           for (int i = 0; i < 97; ++i) { std::snprintf(reinterpret_cast<char*>(buf), sizeof buf, "s%04d", (i * 37) % 97); (void) w.lex.get_identifier(buf); (void) w.lex.get_operator(buf); }
           { std::vector<const ipr::Type*> ts; const ipr::Type* b = &w.lex.int_type(); for (int i = 0; i < 61; ++i) { b = &w.lex.get_array(*b, w.lit(1)); ts.push_back(b); }
             for (int i = 0; i < 61; ++i) { (void) w.lex.get_reference(*ts[std::size_t((i * 23) % 61)]); (void) w.lex.get_conversion(*ts[std::size_t((i * 17) % 61)]); (void) w.lex.get_qualified(w.lex.const_qualifier(), *ts[std::size_t((i * 29) % 61)]); } }
           const ipr::Type* t = &w.lex.char_type();
           for (int i = 0; i < 60; ++i) t = &w.lex.get_pointer(*t);
           for (int i = 0; i < 40; ++i) t = &w.lex.get_qualified(i % 2 ? w.lex.const_qualifier() : w.lex.volatile_qualifier(), w.lex.get_reference(*t)); } },
      { "empty-sequences", [](World& w) {
           { ipr::impl::Warehouse<ipr::Type> e; (void) w.lex.get_sum(e); (void) w.lex.get_product(e); }
           { ipr::impl::Warehouse<ipr::Type> f; f.push_back(w.lex.int_type()); f.push_back(w.lex.char_type()); (void) w.lex.get_sum(f); (void) w.lex.get_product(f); }
           ipr::impl::Warehouse<ipr::Type> g;
           auto& s = w.lex.get_sum(g);
           auto& p = w.lex.get_product(g);
           if (s.size() != 0 or p.size() != 0) rep.count("empty_sequence_not_empty");
           (void) w.lex.get_function(p, w.lex.void_type());
           (void) w.lex.get_tor(p, s); } },
      { "inspect-units", [](World& w) {
           // read what every unit of this Lexicon refers to: all of it must be storage owned by this (live) Lexicon or constant
           auto look = [&](const ipr::Translation_unit& u) {
              const ipr::Namespace& ns = u.global_namespace();
              auto* id = ipr::util::view<ipr::Identifier>(ns.name());
              if (id == nullptr or id->string().characters().size() != 0 or &ns.type() != &w.lex.namespace_type()) rep.count("odd_global_namespace");
              if (id != &w.lex.get_identifier(u8"")) rep.count("global_namespace_named_by_foreign_identifier");
              (void) ns.region().bindings().size();
              (void) u.imported_modules().size();
           };
           look(*w.tu);
           if (w.module) { look(w.module->iface); for (auto& mu : static_cast<const ipr::Module&>(*w.module).implementation_units()) look(mu); }
        } },
      { "probe-past-the-end", [](World& w) {
           // "no operation reads or writes memory outside live objects": the element at size() (and beyond) of a list-backed
           // sequence does not exist; asking for it must be refused, not answered with a reference past the last member
           auto* m = w.lex.make_mapping(*w.global, ipr::Mapping_level{ 0 });
           for (int i = 0; i < 3; ++i) m->param(w.fresh(), w.lex.int_type());
           auto* c = w.lex.make_class(*w.global);
           c->declare_base(w.lex.int_type()); c->declare_base(w.lex.char_type());
           auto* b = w.lex.make_block(*w.global);
           b->new_handler(w.fresh(), w.lex.int_type());
           auto* e = w.lex.make_enum(*w.global, ipr::Enum::Kind::Legacy);
           e->add_member(w.fresh()); e->add_member(w.fresh());
           auto* l = w.lex.make_expr_list(); l->push_back(&w.lit(1));
           if (not w.module) w.module = std::make_unique<ipr::impl::Module>(w.lex);
           w.module->make_unit();
           auto probe = [](const char* what, const auto& seq) {
              const std::size_t n = seq.size();
              for (std::size_t idx : { n, n + 1, n + 7 }) {
                 try {
                    const void* p = &*seq.position(idx);
                    rep.violation(std::string("C19:access-outside-live-objects:") + what, 1, std::string("position ") + std::to_string(idx) + " of the " + what + " sequence of size " + std::to_string(n)
                                  + " is answered with a reference (" + (p == nullptr ? "null" : "not a member") + ") instead of being refused",
                                  vf::JObj{}.str("pass", "C19").raw("ops", vf::jarr(std::vector<long long>(current_history.begin(), current_history.end()))).done());
                 }
                 catch (const std::logic_error&) { }
              }
           };
           probe("parameters", static_cast<const ipr::Parameter_list&>(m->inputs).elements());
           probe("bases", static_cast<const ipr::Class&>(*c).bases());
           probe("handlers", static_cast<const ipr::Block&>(*b).handlers());
           probe("enumerators", static_cast<const ipr::Enum&>(*e).members());
           probe("expression-list", static_cast<const ipr::Expr_list&>(*l).operand());
           probe("module-units", static_cast<const ipr::Module&>(*w.module).implementation_units());
           probe("global-scope", static_cast<const ipr::Region&>(*w.global).bindings().elements());
        } },
      { "print", [](World& w) {
           std::ostringstream os;
           ipr::Printer pp{ w.lex, os };
           // a graph with links still unset is legitimately refused with logic_error (C14/C18); memory must balance either way
           try { pp << *w.tu; } catch (const std::logic_error&) { rep.count("prints_refused"); }
           pp.print_locations = true;
           try { pp << *w.tu; } catch (const std::logic_error&) { }
           // a statement nested 30 blocks deep (90 columns of indentation)
           ipr::impl::Block* outer = w.lex.make_block(*w.global);
           ipr::impl::Block* cur = outer;
           for (int d = 0; d < 30; ++d) { auto* inner = w.lex.make_block(cur->region()); cur->add_stmt(*inner); cur = inner; }
           cur->add_stmt(*w.lex.make_return(w.lit(1)));
           try { pp << ipr::xpr_stmt(*outer); } catch (const std::logic_error&) { } } },
   };
   constexpr int NOPS = int(sizeof ops / sizeof ops[0]);

   struct Balance { long long blocks, bytes, bad; };

   Balance run_history(const std::vector<int>& h)
   {
      vf::env::track_pointers(true);
      const auto before = vf::env::stats();
      {
         World w;
         for (int o : h) { ops[o].run(w); rep.count("transitions"); }
      }
      const auto after = vf::env::stats();
      vf::env::track_pointers(false);
      return { after.live_blocks - before.live_blocks, after.live_bytes - before.live_bytes, after.bad_deletes - before.bad_deletes };
   }

   std::string hist_name(const std::vector<int>& h)
   {
      std::string s;
      for (int o : h) s += std::string(s.empty() ? "" : "+") + ops[o].name;
      return s.empty() ? "empty" : s;
   }

   std::vector<long long> as_ll(const std::vector<int>& h) { return { h.begin(), h.end() }; }

   void describe_current(char* buf, std::size_t n)
   {
      std::string s = "\"pass\":\"C19\",\"ops\":[";
      for (std::size_t i = 0; i < current_history.size(); ++i) s += (i ? "," : "") + std::to_string(current_history[i]);
      s += "],\"history\":" + vf::jstr(hist_name(current_history));
      std::snprintf(buf, n, "%s", s.c_str());
   }

   std::vector<bool> leaky_single(NOPS, false);
   bool leaky_empty = false;

   // returns true when the history balanced
   bool check_history(const std::vector<int>& h)
   {
      current_history = h;
      Balance b = run_history(h);
      rep.count("traces");
      rep.count("states");
      if (rep.samples.size() < rep.sample_cap and h.size() >= 2) rep.sample(vf::JObj{}.str("history", hist_name(h)).num("blocks_still_live", b.blocks).num("bytes_still_live", b.bytes).num("unmatched_deletes", b.bad).done());
      if (b.blocks == 0 and b.bytes == 0 and b.bad == 0) return true;
      // replay before report: a one-time lazy allocation inside the C++ runtime does not repeat
      Balance b2 = run_history(h);
      if (b2.blocks == 0 and b2.bytes == 0 and b2.bad == 0) { rep.count("one_time_allocations_discounted"); return true; }
      std::string culprit;
      if (h.empty() or leaky_empty) culprit = "empty";
      else {
         for (int o : h) if (leaky_single[o]) { culprit = ops[o].name; break; }
         if (culprit.empty()) culprit = hist_name(h);
      }
      if (h.empty()) leaky_empty = true;
      if (h.size() == 1) leaky_single[h[0]] = true;
      std::string key = b2.bad != 0 and b2.blocks == 0 ? "C19:unmatched-delete:" + culprit : "C19:leak:" + culprit;
      rep.violation(key, (long long) h.size(),
                    "after history [" + hist_name(h) + "] and destruction of units and Lexicon, " + std::to_string(b2.blocks) + " blocks / " + std::to_string(b2.bytes)
                    + " bytes allocated on their behalf are still live (" + std::to_string(b2.bad) + " deletes of pointers that were not live)",
                    vf::JObj{}.str("pass", "C19").raw("ops", vf::jarr(as_ll(h))).str("history", hist_name(h)).num("blocks", b2.blocks).num("bytes", b2.bytes).done());
      if (verbose) std::printf("  VIOLATION %s: %lld blocks %lld bytes %lld bad deletes\n", key.c_str(), b2.blocks, b2.bytes, b2.bad);
      return false;
   }

   void enumerate(int depth)
   {
      long long job = 0;
      std::vector<int> h;
      // iterative deepening; depth 0 and 1 are run by every shard (they define the culprit names), deeper levels are split
      check_history(h);
      for (int a = 0; a < NOPS; ++a) check_history({ a });
      for (int d = 2; d <= depth; ++d) {
         std::vector<int> idx(d, 0);
         while (true) {
            if (opt.mine(job++)) {
               if (opt.expired()) { rep.cap("deadline reached at depth " + std::to_string(d)); return; }
               check_history(idx);
               rep.count("distinct_nontrivial");          // every ordered history of >= 2 operations is a distinct case
            }
            int k = d - 1;
            while (k >= 0 and ++idx[k] == NOPS) idx[k--] = 0;
            if (k < 0) break;
         }
         rep.maxi("max_depth_completed", d);
      }
   }

   // 50 Lexicons, two alive at any time.
   void overlapped_chain(int start)
   {
      const int N = 50;
      const auto base = vf::env::stats();
      std::vector<std::vector<int>> hs;
      for (int i = 0; i < N; ++i) hs.push_back({ (start + i) % NOPS, (start * 7 + i * 3 + 1) % NOPS });
      std::unique_ptr<World> prev, cur;
      for (int i = 0; i < N; ++i) {
         cur = std::make_unique<World>();
         for (int o : hs[i]) { ops[o].run(*cur); rep.count("transitions"); }
         prev.reset();            // the older one dies while the newer one is alive and populated
         prev = std::move(cur);
      }
      prev.reset();
      const auto end = vf::env::stats();
      rep.count("traces");
      rep.count("states", N);
      if (end.live_blocks != base.live_blocks or end.live_bytes != base.live_bytes) {
         // confirm by replay
         const auto b0 = vf::env::stats();
         { std::unique_ptr<World> p, c; for (int i = 0; i < N; ++i) { c = std::make_unique<World>(); for (int o : hs[i]) ops[o].run(*c); p.reset(); p = std::move(c); } }
         const auto b1 = vf::env::stats();
         if (b1.live_blocks != b0.live_blocks or b1.live_bytes != b0.live_bytes)
            rep.violation(leaky_empty ? "C19:leak:empty" : "C19:leak:overlapped-lexicons", 1000,
                          "after a chain of 50 Lexicons with overlapping lifetimes, " + std::to_string(b1.live_blocks - b0.live_blocks) + " blocks / "
                          + std::to_string(b1.live_bytes - b0.live_bytes) + " bytes are still live",
                          vf::JObj{}.str("pass", "C19").raw("ops", vf::jarr(std::vector<long long>{ })).num("chain_start", start).done());
      }
   }
}

namespace {
   // Sizes.  Whatever the library does at a particular member count (a slab that is exactly full, a table that has just doubled)
   // it must give back: for EVERY n up to the bound, a Lexicon that holds exactly n members of each kind of unified or owned
   // thing -- names declared in a scope, redeclarations, warehouse products and sums, identifiers, pointer types, literals,
   // parameters, enumerators, handlers, sub-regions, expression-list members -- is built and destroyed; the balance must be zero.
   void size_sweep(int upto)
   {
      for (int n = 1; n <= upto; ++n) {
         if (not opt.mine(n)) continue;
         current_history.clear();
         vf::env::track_pointers(true);
         const auto before = vf::env::stats();
         {
            World w;
            auto& lex = w.lex;
            auto nm = [&](const char8_t* stem, int i) { return std::u8string(stem) + char8_t('a' + i % 26) + char8_t('a' + i / 26 % 26) + char8_t('a' + i / 676 % 26); };
            auto* m = lex.make_mapping(*w.global, ipr::Mapping_level{ 0 });
            auto* e = lex.make_enum(*w.global, ipr::Enum::Kind::Scoped);
            auto* b = lex.make_block(*w.global);
            auto* l = lex.make_expr_list();
            auto* c = lex.make_class(*w.global);
            const ipr::Type* tower = &lex.int_type();
            for (int i = 0; i < n; ++i) {
               auto& id = lex.get_identifier(nm(u8"s", i));
               w.global->declare_var(id, lex.int_type());
               w.global->declare_var(id, lex.int_type());                                  // a redeclaration of each
               c->declare_field(lex.get_identifier(nm(u8"f", i)), lex.int_type());
               tower = &lex.get_pointer(*tower);
               ipr::impl::Warehouse<ipr::Type> wh;
               wh.push_back(*tower); wh.push_back(lex.int_type());
               (void) lex.get_product(wh); (void) lex.get_sum(wh);
               (void) lex.get_literal(lex.int_type(), nm(u8"7", i));
               (void) lex.get_qualified(lex.const_qualifier(), *tower);
               m->param(lex.get_identifier(nm(u8"p", i)), lex.int_type());
               e->add_member(lex.get_identifier(nm(u8"e", i)));
               b->new_handler(lex.get_identifier(nm(u8"h", i)), lex.int_type());
               l->push_back(&w.lit(i % 2));
               w.global->make_subregion();
               rep.count("transitions", 14);
            }
         }
         const auto after = vf::env::stats();
         vf::env::track_pointers(false);
         rep.count("states");
         rep.count("traces");
         const long long blocks = after.live_blocks - before.live_blocks, bytes = after.live_bytes - before.live_bytes, bad = after.bad_deletes - before.bad_deletes;
         if (blocks != 0 or bytes != 0 or bad != 0)
            rep.violation("C19:leak:size-sweep", n, "a Lexicon holding exactly " + std::to_string(n) + " members of every kind leaves " + std::to_string(blocks) + " blocks / " + std::to_string(bytes)
                          + " bytes allocated after destruction (" + std::to_string(bad) + " unmatched deletes)", vf::JObj{}.str("pass", "C19").raw("ops", "[]").num("size_sweep", n).done());
      }
      current_history.clear();
   }
}

int main(int argc, char** argv)
{
   opt = vf::parse_options(argc, argv);
   vf::install_crash_handler(opt, "C19");
   vf::crash_describe = describe_current;
   verbose = not opt.replay.empty();
   // warm-up: every operation once, so that one-time lazy initialisation inside the C++ runtime (locale facets of the
   // first stream, emergency pools) is not charged to the first history that happens to trigger it
   { World w; for (int a = 0; a < NOPS; ++a) { try { ops[a].run(w); } catch (const std::exception& e) { std::fprintf(stderr, "HARNESS-ERROR: operation %s throws: %s\n", ops[a].name, e.what()); return 2; } } }
   if (verbose) {
      const auto rtext = vf::slurp(opt.replay);
      if (vf::json_int(rtext, "size_sweep") > 0) { const int n = int(vf::json_int(rtext, "size_sweep")); std::printf("replay C19: size sweep at %d\n", n); opt.shards = 1; opt.shard = 0; size_sweep(n); for (auto& [k, v] : rep.viols) std::printf("violated: %s  (%s)\n", k.c_str(), v.what.c_str()); return rep.viols.empty() ? 0 : 1; }
      auto o = vf::json_int_array(rtext, "ops");
      std::vector<int> h(o.begin(), o.end());
      std::printf("replay C19: history [%s]\n", hist_name(h).c_str());
      for (int a : h) if (a < 0 or a >= NOPS) { std::printf("bad op index\n"); return 2; }
      for (std::size_t i = 0; i < h.size(); ++i) check_history({ h[i] });
      Balance b = run_history(h);
      std::printf("balance after destruction: %lld blocks, %lld bytes, %lld unmatched deletes\n", b.blocks, b.bytes, b.bad);
      bool ok = check_history(h);
      return ok and rep.viols.empty() ? 0 : 1;
   }
   bool asan = false;
   for (auto& a : opt.extra) if (a == "--asan") asan = true;
   const int depth = asan ? (opt.thorough() ? 3 : 2) : (opt.thorough() ? 4 : 3);
   enumerate(depth);
   for (int s = 0; s < NOPS; ++s)
      if (opt.mine(s)) overlapped_chain(s);
   size_sweep(opt.thorough() ? 600 : 150);
   if (opt.shard == 0) {
      std::vector<std::string> names;
      for (auto& o : ops) names.push_back(o.name);
      rep.info("alphabet", vf::jarr_str(names));
      rep.info("bounds", vf::JObj{}.num("depth", depth).num("operations", NOPS).num("overlapped_chains", NOPS).num("lexicons_per_chain", 50).done());
      rep.sample(vf::JObj{}.str("history", "declare-redeclare+print").str("checked", "live blocks and bytes after ~Module, ~Translation_unit, ~Lexicon equal the counts before construction; no unmatched delete").done());
      rep.sample(vf::JObj{}.str("history", "string-pool-oversize+class+block-handlers").str("checked", "same").done());
   }
   rep.write(opt);
   return 0;
}
