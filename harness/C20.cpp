// C20 — Lexicons are isolated: independent instances can be used from different threads.
// (a) Controlled pass: a serialising scheduler (one runnable thread at a time) owns every scheduling decision.  The
//     scheduling points are the calls the library makes that can touch anything process-wide -- every operator new,
//     every operator delete, every std::_Hash_bytes (engine/envctl hooks), every write to the output stream (the harness'
//     own streambuf) -- plus operation boundaries, thread start and thread end.  For every assignment of construction
//     programs to threads, EVERY schedule with at most B preemptions is executed (iterative context bounding).
//     Oracle per schedule: each thread's observation trace (printed text, spellings, identity relations, sizes) is
//     byte-identical to the trace of the same program run alone; the nodes handed out by two live Lexicons intersect
//     only in the process-wide constants; each thread's allocations balance when its Lexicon is gone.
//     Two shapes: "isolated" (all Lexicons alive until every thread is done, so that address sets can be compared) and
//     "lifecycle" (each thread creates, uses and destroys two Lexicons in a row, no rendezvous).
// (b) Free-running pass (compiled with -DC20_TSAN under ThreadSanitizer, no scheduler): the same thread bodies on 2, 4,
//     8, 16 threads; any ThreadSanitizer report is a violation.  The serialising scheduler's hand-offs are
//     happens-before edges that would blind the detector, hence two builds.
#include <atomic>
#include <condition_variable>
#include <cstring>
#include <memory>
#include <mutex>
#include <set>
#include <sstream>
#include <thread>

#include <pthread.h>

#include <ipr/impl>
#include <ipr/io>

#include "report.hpp"
#ifndef C20_TSAN
#include "envctl.hpp"
#endif

namespace {
   vf::Report rep;
   vf::Options opt;
   bool verbose = false;

   // =========================================================================================================
   // Scheduler
   namespace sched {
      constexpr int MAXT = 4;
      struct Point { unsigned char n; unsigned char enabled[MAXT]; unsigned char chosen; bool running_enabled; };

      std::mutex m;
      std::condition_variable cv[MAXT], cv_main;
      int current = -1;                       // the thread allowed to run (-1: the explorer)
      int nthreads = 0;
      bool finished[MAXT], blocked[MAXT];
      int at_barrier = 0;
      const std::vector<int>* prefix = nullptr;
      std::vector<Point> points;
      bool diverged = false, deadlocked = false, overflowed = false;
      bool active = false;
      thread_local int me = -1;
      thread_local int quiet = 0;             // >0: the harness itself is allocating, not the library

      struct Quiet { Quiet() { ++quiet; } ~Quiet() { --quiet; } };

      int pick(bool running_enabled)
      {
         Point p{ };
         p.running_enabled = running_enabled;
         if (running_enabled) p.enabled[p.n++] = (unsigned char) me;
         for (int t = 0; t < nthreads; ++t) if (t != me and not finished[t] and not blocked[t]) p.enabled[p.n++] = (unsigned char) t;
         if (p.n == 0) return -1;
         const std::size_t pos = points.size();
         int choice = 0;
         if (pos < prefix->size()) {
            choice = (*prefix)[pos];
            if (choice < 0 or choice >= p.n) { diverged = true; choice = 0; }
         }
         p.chosen = (unsigned char) choice;
         if (points.size() == points.capacity()) { overflowed = true; return p.enabled[0]; }      // never allocate on a worker thread
         points.push_back(p);
         return p.enabled[choice];
      }

      void hand_over(std::unique_lock<std::mutex>& lk, int next)
      {
         current = next;
         cv[next].notify_one();
         cv[me].wait(lk, [] { return current == me; });
      }

      // A scheduling point inside a running thread.
      void point(int)
      {
         if (not active or me < 0 or quiet > 0) return;
         ++quiet;
         {
            std::unique_lock<std::mutex> lk(m);
            int next = pick(true);
            if (next != me) hand_over(lk, next);
         }
         --quiet;
      }

      void thread_begin(int id)
      {
         me = id;
         std::unique_lock<std::mutex> lk(m);
         cv[me].wait(lk, [] { return current == me; });
      }

      void thread_end()
      {
         ++quiet;
         std::unique_lock<std::mutex> lk(m);
         finished[me] = true;
         int next = pick(false);
         if (next < 0) {
            bool all = true;
            for (int t = 0; t < nthreads; ++t) all = all and finished[t];
            if (not all) deadlocked = true;
            current = -1;
            cv_main.notify_one();
         }
         else { current = next; cv[next].notify_one(); }
         me = -1;
      }

      // Rendezvous: the caller is disabled until every thread has arrived.
      void barrier()
      {
         if (not active) return;
         ++quiet;
         {
            std::unique_lock<std::mutex> lk(m);
            ++at_barrier;
            int waiting_or_done = at_barrier;
            for (int t = 0; t < nthreads; ++t) if (finished[t]) ++waiting_or_done;
            if (waiting_or_done >= nthreads) {
               for (int t = 0; t < nthreads; ++t) blocked[t] = false;
               at_barrier = 0;
               int next = pick(true);
               if (next != me) hand_over(lk, next);
            }
            else {
               blocked[me] = true;
               int next = pick(false);
               if (next < 0) { deadlocked = true; current = -1; cv_main.notify_one(); cv[me].wait(lk, [] { return false; }); }
               hand_over(lk, next);
            }
         }
         --quiet;
      }
   }

   // A stream buffer whose every write is a scheduling point.
   struct SchedBuf : std::stringbuf {
      int_type overflow(int_type c) override { sched::point(3); sched::Quiet q; return std::stringbuf::overflow(c); }
      std::streamsize xsputn(const char* s, std::streamsize n) override { sched::point(3); sched::Quiet q; return std::stringbuf::xsputn(s, n); }
   };

   // =========================================================================================================
   // Thread bodies: construction programs.  Each appends what it observes to `trace` (addresses never enter it) and
   // the addresses of the nodes it was handed to `nodes`.
   struct Sink {
      std::string* trace;
      std::vector<const void*>* nodes;
      void note(const std::string& s) { sched::Quiet q; trace->append(s); trace->push_back('\n'); }
      void node(const ipr::Node& n) { sched::Quiet q; nodes->push_back(static_cast<const void*>(&n)); }
      void node(const ipr::Transfer& x) { sched::Quiet q; nodes->push_back(static_cast<const void*>(&x)); }
      void op() { sched::point(4); }
   };

   std::string print_unit(const ipr::Lexicon& lex, const ipr::Translation_unit& u, bool locations)
   {
      SchedBuf buf;
      std::ostream os{ &buf };
      ipr::Printer pp{ lex, os };
      pp.print_locations = locations;
      try { pp << u; } catch (const std::logic_error& e) { sched::Quiet q; return buf.str() + "<logic_error>"; }
      sched::Quiet q;
      return buf.str();
   }
   template<class X>
   std::string print_one(const ipr::Lexicon& lex, X x)
   {
      SchedBuf buf;
      std::ostream os{ &buf };
      ipr::Printer pp{ lex, os };
      try { pp << x; } catch (const std::logic_error&) { sched::Quiet q; return buf.str() + "<logic_error>"; }
      sched::Quiet q;
      return buf.str();
   }

   using Program = void (*)(ipr::impl::Lexicon&, ipr::impl::Translation_unit&, Sink&, int salt);

   // What every program observes first: the nodes a unit comes with belong to its own Lexicon (C20-G: the name of the global
   // namespace remembered in a function-local static names every later unit with a node of the FIRST Lexicon of the process).
   void unit_facts(ipr::impl::Lexicon& lex, ipr::impl::Translation_unit& unit, Sink& s)
   {
      const ipr::Translation_unit& u = unit;
      auto& gn = u.global_namespace();
      s.node(gn); s.node(gn.name()); s.node(gn.region()); s.node(gn.region().bindings());
      s.note(std::string("global namespace named by the unnamed identifier of its own Lexicon: ") + (&gn.name() == static_cast<const ipr::Name*>(&lex.get_identifier(u8"")) ? "yes" : "NO")
             + ", typed namespace: " + (&gn.type() == &static_cast<const ipr::Lexicon&>(lex).namespace_type() ? "yes" : "NO")
             + ", its region is the unit's global region: " + (&gn.region() == static_cast<const ipr::Region*>(unit.global_region()) ? "yes" : "NO"));
   }

   void prog_declare_print(ipr::impl::Lexicon& lex, ipr::impl::Translation_unit& unit, Sink& s, int salt)
   {
      unit_facts(lex, unit, s);
      auto& name = lex.get_identifier(salt % 2 ? u8"bufsz" : u8"count");
      auto& type = lex.get_qualified(lex.const_qualifier(), lex.int_type());
      auto* v = unit.global_region()->declare_var(name, type);
      v->init = lex.make_literal(lex.int_type(), u8"1024");
      v->src_locus = ipr::Source_location{ ipr::Line_number{ 11 }, ipr::Column_number{ 22 }, ipr::File_index{ 1 } };
      s.node(*v); s.node(name); s.node(type);
      s.op();
      auto* w = unit.global_region()->declare_var(lex.get_identifier(u8"second"), lex.get_pointer(type));
      w->src_locus = ipr::Source_location{ ipr::Line_number{ 12 }, ipr::Column_number{ 3 }, ipr::File_index{ 2 } };
      s.node(*w);
      s.op();
      s.note(print_unit(lex, unit, true));
      s.note(print_unit(lex, unit, false));
   }

   void prog_type_towers(ipr::impl::Lexicon& lex, ipr::impl::Translation_unit& unit, Sink& s, int salt)
   {
      unit_facts(lex, unit, s);
      const ipr::Type* t = salt % 2 ? &lex.char_type() : &lex.int_type();
      for (int i = 0; i < 4; ++i) { t = &lex.get_pointer(*t); s.node(*t); }
      auto& ri = lex.get_reference(lex.int_type());
      auto& rri = lex.get_rvalue_reference(lex.int_type());
      auto& pi = lex.get_pointer(lex.int_type());
      auto& ci = lex.get_qualified(lex.const_qualifier(), lex.int_type());
      s.node(ri); s.node(rri); s.node(pi); s.node(ci);
      s.note(std::string("int& again: ") + (&lex.get_reference(lex.int_type()) == &ri ? "same" : "DIFFERENT") + ", refers to int: " + (&ri.refers_to() == &lex.int_type() ? "yes" : "NO"));
      s.op();
      ipr::impl::Warehouse<ipr::Type> w;
      w.push_back(lex.int_type()); w.push_back(*t);
      auto& p = lex.get_product(w);
      auto& f = lex.get_function(p, lex.get_qualified(lex.const_qualifier() | lex.volatile_qualifier(), *t), lex.true_value());
      s.node(p); s.node(f);
      s.note(std::string("same pointer again: ") + (&lex.get_pointer(f) == &lex.get_pointer(f) ? "same" : "DIFFERENT"));
      s.op();
      s.note(print_one(lex, ipr::xpr_type(f)));
      s.note(print_one(lex, ipr::xpr_type(lex.get_array(*t, *lex.make_literal(lex.int_type(), u8"8")))));
   }

   void prog_interning(ipr::impl::Lexicon& lex, ipr::impl::Translation_unit& unit, Sink& s, int salt)
   {
      unit_facts(lex, unit, s);
      static const char8_t* const words[] = { u8"alpha", u8"int", u8"a-rather-long-word-that-needs-several-granules", u8"", u8"const", u8"alpha", u8"beta", u8"unsigned long long", u8"x" };
      std::vector<const ipr::String*> got;
      int k = 0;
      for (auto w : words) {
         std::u8string text = w;
         if (k % 3 == 0 and not text.empty()) text += char8_t('0' + salt % 10);
         auto& str = lex.get_string(text);
         got.push_back(&str);
         s.node(str);
         s.note(std::string(reinterpret_cast<const char*>(str.characters().data()), str.characters().size()));
         if (++k % 3 == 0) s.op();
      }
      std::string rel;
      for (std::size_t i = 0; i < got.size(); ++i) for (std::size_t j = i + 1; j < got.size(); ++j) rel += got[i] == got[j] ? '=' : '.';
      s.note(rel);
      auto& id = lex.get_identifier(u8"alpha");
      s.node(id);
      s.note(&id == &lex.get_identifier(lex.get_string(u8"alpha")) ? "one identifier" : "TWO identifiers");
   }

   void prog_atoms(ipr::impl::Lexicon& lex, ipr::impl::Translation_unit& unit, Sink& s, int salt)
   {
      unit_facts(lex, unit, s);
      auto& l1 = lex.get_literal(lex.int_type(), salt % 2 ? u8"7" : u8"9");
      auto& l2 = lex.get_literal(lex.char_type(), u8"7");
      auto& lab = lex.get_label(lex.get_identifier(u8"retry"));
      auto& lab2 = lex.get_label(lex.get_identifier(u8"done"));
      auto& sym = lex.get_symbol(lex.get_operator(u8"+"), lex.int_type());
      s.node(l1); s.node(l2); s.node(lab); s.node(lab2); s.node(sym);
      s.op();
      auto* e = lex.make_plus(l1, *lex.make_mul(l2, *lex.make_id_expr(lex.get_identifier(u8"y"))));
      s.node(*e);
      s.note(print_one(lex, ipr::xpr_expr(*e)));
      s.note(print_one(lex, ipr::xpr_expr(lab)) + " " + print_one(lex, ipr::xpr_expr(lab2)));
      s.op();
      s.note(&lex.get_label(lex.get_identifier(u8"retry")) == &lab ? "label found again" : "label LOST");
      s.note(&lex.get_linkage(u8"C") == &lex.c_linkage() ? "C linkage constant" : "C linkage LOOK-ALIKE");
      s.note(&lex.get_as_type(lex.get_identifier(u8"int")) == static_cast<const ipr::Type*>(&lex.int_type()) ? "int by name" : "int LOOK-ALIKE");
      s.note(&lex.get_as_type(lex.get_identifier(u8"unsigned long long")) == static_cast<const ipr::Type*>(&lex.ulong_long_type()) ? "ull by name" : "ull LOOK-ALIKE");
      s.note(lex.specifiers(ipr::Basic_specifier{ lex.get_logogram(lex.get_string(u8"static")) }) == lex.static_specifier() and lex.decompose(lex.const_qualifier() | lex.volatile_qualifier()).size() == 2 ? "specifier basis" : "specifier basis WRONG");
      auto& xc = lex.get_transfer_from_linkage(lex.c_linkage());
      auto& xc2 = lex.get_transfer(lex.get_linkage(u8"C"), lex.get_calling_convention(u8""));
      auto& xs = lex.get_transfer_from_convention(lex.get_calling_convention(u8"stdcall"));
      s.node(xc); s.node(xc2); s.node(xs);
      {
         ipr::impl::Warehouse<ipr::Type> w;
         w.push_back(lex.int_type());
         auto& f = lex.get_function(lex.get_product(w), lex.void_type(), xc);
         s.node(f);
         s.note(f.transfer() == xc and f.linkage() == lex.c_linkage() ? "extern C function type" : "extern C function type WRONG");
      }
      auto& x = lex.get_transfer(lex.get_linkage(u8"Java"), lex.get_calling_convention(u8"fastcall"));
      s.node(x);
      s.note(std::string(reinterpret_cast<const char*>(x.linkage().language().what().characters().data()), x.linkage().language().what().characters().size()));
   }

   void prog_regions(ipr::impl::Lexicon& lex, ipr::impl::Translation_unit& unit, Sink& s, int salt)
   {
      unit_facts(lex, unit, s);
      auto& G = *unit.global_region();
      auto* c = lex.make_class(G);
      c->id = &lex.get_identifier(salt % 2 ? u8"Widget" : u8"Gadget");
      c->declare_base(lex.int_type());
      c->declare_field(lex.get_identifier(u8"m0"), lex.int_type());
      auto* f = c->declare_field(lex.get_identifier(u8"m1"), lex.get_pointer(*c));
      s.node(*c); s.node(*f);
      G.declare_type(c->id.get(), lex.class_type())->init = c;
      s.op();
      auto* e = lex.make_enum(G, ipr::Enum::Kind::Scoped);
      e->id = &lex.get_identifier(u8"Colour");
      for (auto w : { u8"red", u8"green", u8"blue" }) s.node(*e->add_member(lex.get_identifier(w)));
      G.declare_type(e->id.get(), lex.enum_type())->init = e;
      s.op();
      s.note(print_unit(lex, unit, false));
#ifdef C20_TSAN
      {
         // (free-running pass only: under the scheduler every byte written is a scheduling point)
         // a statement nested 24 blocks deep (72 columns of indentation), printed on its own
         ipr::impl::Block* outer = lex.make_block(G);
         ipr::impl::Block* cur = outer;
         for (int d = 0; d < 24; ++d) { auto* inner = lex.make_block(cur->region()); cur->add_stmt(*inner); cur = inner; }
         cur->add_stmt(*lex.make_return(*lex.make_literal(lex.int_type(), u8"1")));
         s.note(print_one(lex, ipr::xpr_stmt(*outer)));
      }
#endif
      s.note("members " + std::to_string(static_cast<const ipr::Class&>(*c).members().size()) + " enumerators " + std::to_string(static_cast<const ipr::Enum&>(*e).members().size()));
   }

   const Program programs[] = { prog_declare_print, prog_type_towers, prog_interning, prog_atoms, prog_regions };
   const char* program_name[] = { "declare+print", "type-towers", "interning", "atoms", "regions+print" };
   constexpr int NPROG = 5;

   // The process-wide constants two Lexicons may share.
   std::set<const void*> shared_constants()
   {
      std::set<const void*> w;
      ipr::impl::Lexicon lex;
      const ipr::Lexicon& l = lex;
      const ipr::Type* ts[] = { &l.void_type(), &l.bool_type(), &l.char_type(), &l.schar_type(), &l.uchar_type(), &l.wchar_t_type(), &l.char8_t_type(), &l.char16_t_type(), &l.char32_t_type(),
                                &l.short_type(), &l.ushort_type(), &l.int_type(), &l.uint_type(), &l.long_type(), &l.ulong_type(), &l.long_long_type(), &l.ulong_long_type(), &l.float_type(),
                                &l.double_type(), &l.long_double_type(), &l.ellipsis_type(), &l.typename_type(), &l.class_type(), &l.union_type(), &l.enum_type(), &l.namespace_type() };
      for (auto t : ts) { w.insert(static_cast<const ipr::Node*>(t)); w.insert(static_cast<const ipr::Node*>(&t->name())); }
      for (auto c : { &l.false_value(), &l.true_value(), &l.nullptr_value(), &l.default_value(), &l.delete_value() }) { w.insert(static_cast<const ipr::Node*>(c)); w.insert(static_cast<const ipr::Node*>(&c->name())); }
      static const char8_t* const reserved[] = {
         u8"...", u8"=0", u8"C", u8"C++", u8"auto", u8"bool", u8"char", u8"char16_t", u8"char32_t", u8"char8_t", u8"class", u8"const", u8"consteval", u8"constexpr", u8"constinit", u8"default",
         u8"delete", u8"double", u8"enum", u8"explicit", u8"export", u8"extern", u8"false", u8"float", u8"friend", u8"inline", u8"int", u8"long", u8"long double", u8"long long", u8"mutable",
         u8"namespace", u8"nullptr", u8"private", u8"protected", u8"public", u8"register", u8"restrict", u8"short", u8"signed char", u8"static", u8"this", u8"thread_local", u8"true", u8"typedef",
         u8"typename", u8"union", u8"unsigned char", u8"unsigned int", u8"unsigned long", u8"unsigned long long", u8"unsigned short", u8"virtual", u8"void", u8"volatile", u8"wchar_t", u8"" };
      for (auto r : reserved) { w.insert(static_cast<const ipr::Node*>(&lex.get_string(r))); w.insert(static_cast<const ipr::Node*>(&lex.get_identifier(r))); }
      w.insert(static_cast<const ipr::Node*>(&ipr::String::empty_string()));
      w.insert(static_cast<const void*>(&ipr::impl::cxx_transfer()));
      return w;
   }

   // =========================================================================================================
   struct ThreadResult {
      std::string trace;
      std::vector<const void*> nodes;
      long long balance_blocks = 0, balance_bytes = 0;
      std::string error;
   };

   int lifecycle_rounds = 2;          // quick: the same program on two Lexicons in a row; thorough: then the next program on a third
   // shape 0 "isolated": one Lexicon, kept alive until everybody is done.  shape 1 "lifecycle": several Lexicons in a row.
   void body(int shape, int prog, int salt, ThreadResult& r)
   {
#ifndef C20_TSAN
      const auto s0 = vf::env::stats();
#endif
      try {
         Sink sink{ &r.trace, &r.nodes };
         if (shape == 0) {
            ipr::impl::Lexicon lex;
            ipr::impl::Translation_unit unit{ lex };
            sink.op();
            programs[prog](lex, unit, sink, salt);
            sched::barrier();
         }
         else
            for (int round = 0; round < lifecycle_rounds; ++round) {
               ipr::impl::Lexicon lex;
               ipr::impl::Translation_unit unit{ lex };
               sink.op();
               programs[(prog + round / 2) % NPROG](lex, unit, sink, salt + round / 2);       // twice the same program, then the next one
               sink.op();
            }
      }
      catch (const std::exception& e) { sched::Quiet q; r.error = std::string("exception: ") + e.what(); }
      catch (...) { sched::Quiet q; r.error = "unknown exception"; }
#ifndef C20_TSAN
      const auto s1 = vf::env::stats();
      r.balance_blocks = s1.live_blocks - s0.live_blocks;
      r.balance_bytes = s1.live_bytes - s0.live_bytes;
#endif
   }

   void prepare(ThreadResult& r)
   {
      r.trace.clear(); r.trace.reserve(1 << 16);
      r.nodes.clear(); r.nodes.reserve(1 << 10);
      r.error.clear(); r.error.reserve(256);
      r.balance_blocks = r.balance_bytes = 0;
   }

#ifndef C20_TSAN
   // ---- one controlled execution ----
   struct Config { int shape; std::vector<int> progs; };
   struct Execution { std::vector<sched::Point> points; std::vector<ThreadResult> results; bool diverged = false, deadlocked = false; };

   void* trampoline(void* arg);
   struct Launch { int id; const Config* cfg; ThreadResult* res; };

   void* trampoline(void* arg)
   {
      Launch* l = static_cast<Launch*>(arg);
      sched::thread_begin(l->id);
      sched::point(5);                                   // thread start
      body(l->cfg->shape, l->cfg->progs[std::size_t(l->id)], l->id, *l->res);
      sched::thread_end();
      return nullptr;
   }

   void execute(const Config& cfg, const std::vector<int>& prefix, Execution& x)
   {
      const int n = int(cfg.progs.size());
      x.results.resize(std::size_t(n));
      for (auto& r : x.results) prepare(r);
      sched::nthreads = n;
      for (int t = 0; t < sched::MAXT; ++t) { sched::finished[t] = false; sched::blocked[t] = false; }
      sched::at_barrier = 0;
      sched::prefix = &prefix;
      sched::points.clear();
      sched::points.reserve(std::size_t(1) << 16);
      sched::diverged = sched::deadlocked = sched::overflowed = false;
      sched::current = -1;
      sched::active = true;
      pthread_t th[sched::MAXT];
      Launch launch[sched::MAXT];
      for (int t = 0; t < n; ++t) { launch[t] = { t, &cfg, &x.results[std::size_t(t)] }; pthread_create(&th[t], nullptr, trampoline, &launch[t]); }
      {
         std::unique_lock<std::mutex> lk(sched::m);
         sched::current = 0;
         sched::cv[0].notify_one();
         sched::cv_main.wait(lk, [] { return sched::current == -1; });
      }
      if (not sched::deadlocked) for (int t = 0; t < n; ++t) pthread_join(th[t], nullptr);
      sched::active = false;
      x.points = sched::points;
      x.diverged = sched::diverged;
      x.deadlocked = sched::deadlocked;
      if (sched::overflowed) { std::fprintf(stderr, "HARNESS-ERROR more than 65536 scheduling points in one execution\n"); std::exit(2); }
   }

   std::string sched_text(const std::vector<int>& prefix)
   {
      std::string s;
      for (std::size_t i = 0; i < prefix.size(); ++i) if (prefix[i] != 0) s += (s.empty() ? "" : ", ") + std::string("at point ") + std::to_string(i) + " run alternative " + std::to_string(prefix[i]);
      return s.empty() ? "default schedule (no switch)" : s;
   }

   std::set<const void*> constants;
   std::vector<std::string> reference[2][NPROG][sched::MAXT];        // [shape][prog][salt] -> trace when run alone
   // what a FRESH thread that runs the program alone has allocated and not released when the program is over: zero, unless the
   // library keeps something per thread until the thread ends (an immutable thread_local table built on first use is not a defect)
   long long alone_blocks[2][NPROG][sched::MAXT] = { }, alone_bytes[2][NPROG][sched::MAXT] = { };

   std::string config_text(const Config& c)
   {
      std::string s = c.shape == 0 ? "isolated:" : "lifecycle:";
      for (std::size_t i = 0; i < c.progs.size(); ++i) s += std::string(i ? "|" : "") + program_name[c.progs[i]];
      return s;
   }

   long long n_schedules = 0;
   std::set<std::string> outcomes;

   void check(const Config& cfg, const std::vector<int>& prefix, const Execution& x)
   {
      ++n_schedules;
      rep.count("traces");
      rep.count("states", (long long) x.points.size());
      rep.count("transitions", (long long) x.points.size());
      std::vector<long long> ops{ cfg.shape };
      for (int p : cfg.progs) ops.push_back(p);
      std::vector<long long> sch(prefix.begin(), prefix.end());
      const std::string witness = vf::JObj{}.str("pass", "C20").raw("ops", vf::jarr(ops)).raw("schedule", vf::jarr(sch)).done();
      long long npre = 0;
      for (auto& p : x.points) if (p.running_enabled and p.chosen != 0) ++npre;
      const long long rank = npre * 1000 + (long long) cfg.progs.size();
      const std::string where = " [" + config_text(cfg) + "; " + sched_text(prefix) + "]";
      if (rep.samples.size() < rep.sample_cap and npre >= 2) rep.sample(vf::JObj{}.str("configuration", config_text(cfg)).str("schedule", sched_text(prefix)).num("scheduling_points", (long long) x.points.size()).num("preemptions", npre).done());
      if (x.diverged) { std::fprintf(stderr, "HARNESS-ERROR replay divergence%s\n", where.c_str()); std::exit(2); }
      if (x.deadlocked) { rep.violation("C20:deadlock", rank, "no thread could run although not all had finished" + where, witness); return; }
      std::string sig;
      for (std::size_t t = 0; t < cfg.progs.size(); ++t) {
         const ThreadResult& r = x.results[t];
         const std::string prog = program_name[cfg.progs[t]];
         if (not r.error.empty()) rep.violation("C20:thread-failed:" + prog, rank, "thread " + std::to_string(t) + " (" + prog + ") ended with " + r.error + where, witness);
         const auto& want = reference[cfg.shape][cfg.progs[t]][t];
         if (want.empty() or r.trace != want[0]) {
            std::size_t i = 0;
            const std::string& w = want.empty() ? r.trace : want[0];
            while (i < w.size() and i < r.trace.size() and w[i] == r.trace[i]) ++i;
            auto clip = [&](const std::string& s) { std::string c = s.substr(i > 20 ? i - 20 : 0, 60); for (auto& ch : c) if (ch == '\n') ch = '|'; return c; };
            rep.violation("C20:trace-differs-from-sequential:" + prog, rank, "thread " + std::to_string(t) + " (" + prog + ") observed something else than when run alone, at byte " + std::to_string(i) + ": '" + clip(r.trace) + "' instead of '" + clip(w) + "'" + where, witness);
         }
         const long long ab = alone_blocks[cfg.shape][cfg.progs[t]][t], ay = alone_bytes[cfg.shape][cfg.progs[t]][t];
         if (r.balance_blocks != ab or r.balance_bytes != ay)
            rep.violation("C20:allocation-crosses-threads:" + prog, rank, "thread " + std::to_string(t) + " (" + prog + ") ends with " + std::to_string(r.balance_blocks) + " blocks / " + std::to_string(r.balance_bytes) + " bytes it allocated but did not release (or released without allocating); a fresh thread running the same program alone ends with "
                          + std::to_string(ab) + " / " + std::to_string(ay) + where, witness);
         sig += std::to_string(vf::fnv(r.trace) % 100000) + ":" + std::to_string(r.balance_blocks) + ";";
      }
      if (cfg.shape == 0)
         for (std::size_t a = 0; a < cfg.progs.size(); ++a)
            for (std::size_t b = a + 1; b < cfg.progs.size(); ++b) {
               std::set<const void*> sa(x.results[a].nodes.begin(), x.results[a].nodes.end());
               for (auto p : x.results[b].nodes)
                  if (sa.count(p) and not constants.count(p)) {
                     rep.violation("C20:node-shared-between-lexicons", rank, "threads " + std::to_string(a) + " and " + std::to_string(b) + " were handed the same node by two different live Lexicons, and it is not one of the built-in constants" + where, witness);
                     break;
                  }
            }
      outcomes.insert(sig);
   }

   void explore(const Config& cfg, std::vector<int> prefix, int bound, long long& budget)
   {
      if (opt.expired() or budget <= 0) { rep.cap("schedule budget or deadline reached in " + config_text(cfg)); return; }
      opt.kick();
      Execution x;
      execute(cfg, prefix, x);
      --budget;
      check(cfg, prefix, x);
      if (x.deadlocked or x.diverged) return;
      int cost = 0;
      std::vector<int> choices;
      for (auto& p : x.points) choices.push_back(p.chosen);
      for (std::size_t i = 0; i < x.points.size(); ++i) {
         const auto& p = x.points[i];
         if (i >= prefix.size()) {
            const int c = cost + (p.running_enabled ? 1 : 0);
            if (c <= bound)
               for (int alt = 1; alt < p.n; ++alt) {
                  std::vector<int> next(choices.begin(), choices.begin() + long(i));
                  next.push_back(alt);
                  explore(cfg, next, bound, budget);
               }
         }
         if (p.running_enabled and p.chosen != 0) ++cost;
      }
   }

   // Two Lexicons alive at once on ONE thread, the same program on both (and on a third after the first died): what they
   // hand out is disjoint up to the constants, and each observes what a Lexicon alone observes.
   void two_alive_on_one_thread()
   {
      for (int p = 0; p < NPROG; ++p) {
         ThreadResult a, b, c;
         prepare(a); prepare(b); prepare(c);
         Sink sa{ &a.trace, &a.nodes }, sb{ &b.trace, &b.nodes }, sc{ &c.trace, &c.nodes };
         {
            auto la = std::make_unique<ipr::impl::Lexicon>();
            auto ua = std::make_unique<ipr::impl::Translation_unit>(*la);
            ipr::impl::Lexicon lb;
            ipr::impl::Translation_unit ub{ lb };
            programs[p](*la, *ua, sa, 0);
            programs[p](lb, ub, sb, 0);
            std::set<const void*> na(a.nodes.begin(), a.nodes.end());
            for (auto q : b.nodes)
               if (na.count(q) and not constants.count(q)) {
                  rep.violation("C20:node-shared-between-lexicons", p, std::string("two Lexicons alive on one thread running ") + program_name[p] + " were handed the same node, and it is not one of the built-in constants", vf::JObj{}.str("pass", "C20").raw("ops", vf::jarr(std::vector<long long>{ 2, p })).raw("schedule", "[]").done());
                  break;
               }
            ua.reset(); la.reset();                  // the first one dies; a third one is used next to the second
            ipr::impl::Lexicon lc;
            ipr::impl::Translation_unit uc{ lc };
            programs[p](lc, uc, sc, 0);
            std::set<const void*> nb(b.nodes.begin(), b.nodes.end());
            for (auto q : c.nodes)
               if (nb.count(q) and not constants.count(q)) { rep.violation("C20:node-shared-between-lexicons", p, std::string("a Lexicon created after another one died was handed a node of a still living third one (") + program_name[p] + ")", vf::JObj{}.str("pass", "C20").raw("ops", vf::jarr(std::vector<long long>{ 2, p })).raw("schedule", "[]").done()); break; }
         }
         ThreadResult alone;
         prepare(alone);
         { ipr::impl::Lexicon l; ipr::impl::Translation_unit u{ l }; Sink s1{ &alone.trace, &alone.nodes }; programs[p](l, u, s1, 0); }
         if (a.trace != alone.trace or b.trace != alone.trace or c.trace != alone.trace)
            rep.violation(std::string("C20:trace-differs-from-sequential:") + program_name[p], p, std::string("running ") + program_name[p] + " on several Lexicons of one thread observes something else than on a single Lexicon", vf::JObj{}.str("pass", "C20").raw("ops", vf::jarr(std::vector<long long>{ 2, p })).raw("schedule", "[]").done());
         rep.count("traces"); rep.count("states", 3); rep.count("transitions", 3);
      }
   }

   void sequential_references()
   {
      for (int shape = 0; shape < 2; ++shape)
         for (int p = 0; p < NPROG; ++p)
            for (int salt = 0; salt < sched::MAXT; ++salt) {
               ThreadResult a, b;
               prepare(a); prepare(b);
               body(shape, p, salt, a);
               body(shape, p, salt, b);
               // (the programs print no addresses and read no clock: the same program on a second Lexicon, with nothing else going on,
               //  can only observe something else if the first Lexicon left something behind)
               if (a.trace != b.trace)
                  rep.violation(std::string("C20:second-run-alone-differs:") + program_name[p], p, std::string("running ") + program_name[p] + " alone, twice in a row on fresh Lexicons, observes two different things",
                                vf::JObj{}.str("pass", "C20").raw("ops", vf::jarr(std::vector<long long>{ 3, shape, p, salt })).raw("schedule", "[]").done());
               if (a.balance_blocks != 0) { sched::Quiet q; /* one-time runtime allocations are absorbed by the first run */ }
               reference[shape][p][salt] = { a.trace };
               // the same program alone on a fresh thread, twice (the two must agree: the residue is a property of "a thread", not of the first one)
               ThreadResult f1, f2;
               prepare(f1); prepare(f2);
               { std::thread th([&] { body(shape, p, salt, f1); }); th.join(); }
               { std::thread th([&] { body(shape, p, salt, f2); }); th.join(); }
               if (f1.trace != a.trace or f2.trace != a.trace or f1.balance_blocks != f2.balance_blocks or f1.balance_bytes != f2.balance_bytes)
                  rep.violation(std::string("C20:second-run-alone-differs:") + program_name[p], p, std::string("running ") + program_name[p] + " alone on a fresh thread, twice, observes or retains two different things",
                                vf::JObj{}.str("pass", "C20").raw("ops", vf::jarr(std::vector<long long>{ 3, shape, p, salt })).raw("schedule", "[]").done());
               alone_blocks[shape][p][salt] = f2.balance_blocks;
               alone_bytes[shape][p][salt] = f2.balance_bytes;
            }
   }
#endif

#ifdef C20_TSAN
   void free_running()
   {
      // cold start: the very first use of the library in this process happens on 8 threads at once (anything built
      // lazily behind a flag is raced for here, and only here); every shard starts with another program
      {
         const int n = 8, prog = opt.shard % NPROG;
         std::vector<ThreadResult> res(static_cast<std::size_t>(n));
         for (auto& r : res) prepare(r);
         std::vector<std::thread> th;
         std::atomic<int> go{ 0 };
         for (int t = 0; t < n; ++t) th.emplace_back([&, t, prog] { while (go.load(std::memory_order_acquire) == 0) { } body(t % 2, (prog + t / 4) % NPROG, t, res[std::size_t(t)]); });
         go.store(1, std::memory_order_release);
         for (auto& t : th) t.join();
         for (int t = 0; t < n; ++t) {
            ThreadResult alone; prepare(alone); body(t % 2, (prog + t / 4) % NPROG, t, alone);
            if (res[std::size_t(t)].trace != alone.trace)
               rep.violation(std::string("C20:trace-differs-from-sequential:") + program_name[(prog + t / 4) % NPROG], n, std::string("cold start: a thread running ") + program_name[(prog + t / 4) % NPROG] + " as one of the first 8 users of the library in the process observed something else than when run alone",
                             vf::JObj{}.str("pass", "C20tsan").raw("ops", vf::jarr(std::vector<long long>{ n, -1, prog })).done());
         }
         rep.count("traces"); rep.count("states", n); rep.count("transitions", n);
      }
      // the same bodies, no scheduler: ThreadSanitizer sees the threads share no happens-before edge at all
      std::vector<std::string> ref[2][NPROG];
      for (int shape = 0; shape < 2; ++shape) for (int p = 0; p < NPROG; ++p) for (int salt = 0; salt < 16; ++salt) { ThreadResult r; prepare(r); body(shape, p, salt, r); ref[shape][p].push_back(r.trace); }
      const int rounds = opt.thorough() ? 40 : 12;
      long long job = 0;
      for (int n : { 2, 3, 4, 8, 16 })
         for (int shape = 0; shape < 2; ++shape)
            for (int round = 0; round < rounds; ++round) {
               if (not opt.mine(job++)) continue;
               std::vector<ThreadResult> res(static_cast<std::size_t>(n));
               for (auto& r : res) prepare(r);
               std::vector<std::thread> th;
               std::atomic<int> go{ 0 };
               for (int t = 0; t < n; ++t) {
                  const int order = (t * 7 + round) % n;         // start order permuted by the round
                  th.emplace_back([&, order, round, shape] { while (go.load(std::memory_order_acquire) == 0) { } body(shape, (order + round) % NPROG, order, res[std::size_t(order)]); });
               }
               go.store(1, std::memory_order_release);
               for (auto& t : th) t.join();
               rep.count("traces");
               rep.count("states", n);
               rep.count("transitions", n);
               for (int t = 0; t < n; ++t) {
                  const int prog = (t + round) % NPROG;
                  if (res[std::size_t(t)].trace != ref[shape][prog][std::size_t(t)])
                     rep.violation(std::string("C20:trace-differs-from-sequential:") + program_name[prog], n, std::string("free-running: a thread running ") + program_name[prog] + " among " + std::to_string(n) + " threads observed something else than when run alone",
                                   vf::JObj{}.str("pass", "C20tsan").raw("ops", vf::jarr(std::vector<long long>{ n, shape, round })).done());
                  if (not res[std::size_t(t)].error.empty())
                     rep.violation(std::string("C20:thread-failed:") + program_name[prog], n, "free-running thread ended with " + res[std::size_t(t)].error, vf::JObj{}.str("pass", "C20tsan").raw("ops", vf::jarr(std::vector<long long>{ n, shape, round })).done());
               }
               rep.member("outcomes", "threads=" + std::to_string(n) + ",shape=" + std::to_string(shape));
            }
      rep.count("distinct_nontrivial", 10);
   }
#endif
}

int main(int argc, char** argv)
{
   opt = vf::parse_options(argc, argv);
   lifecycle_rounds = opt.thorough() ? 3 : 2;
#ifdef C20_TSAN
   free_running();
   if (opt.shard == 0) {
      rep.info("free_running", vf::JObj{}.str("threads", "2,3,4,8,16").num("rounds_per_count_and_shape", opt.thorough() ? 40 : 12).str("detector", "ThreadSanitizer (clang), halt_on_error=0, exitcode=66").done());
      rep.sample(vf::JObj{}.str("case", "8 threads, each its own Lexicon, programs rotated by the round").str("checked", "no ThreadSanitizer report; every trace equals the sequential one").done());
   }
   rep.write(opt);
   return 0;
#else
   vf::install_crash_handler(opt, "C20");
   verbose = not opt.replay.empty();
   constants = shared_constants();
   sequential_references();
   if (opt.shard == 0 or verbose) two_alive_on_one_thread();
   vf::env::hook = [](int kind) { sched::point(kind); };
   if (verbose) {
      auto text = vf::slurp(opt.replay);
      auto ops = vf::json_int_array(text, "ops");
      auto schedule = vf::json_int_array(text, "schedule");
      if (ops.size() < 2) { std::printf("bad replay file\n"); return 2; }
      if (ops[0] == 2 or ops[0] == 3) { for (auto& [k, v] : rep.viols) std::printf("violated: %s  (%s)\n", k.c_str(), v.what.c_str()); return rep.viols.empty() ? 0 : 1; }
      Config cfg{ int(ops[0]), { } };
      for (std::size_t i = 1; i < ops.size(); ++i) cfg.progs.push_back(int(ops[i]));
      std::vector<int> prefix(schedule.begin(), schedule.end());
      std::printf("replay C20: %s; %s\n", config_text(cfg).c_str(), sched_text(prefix).c_str());
      Execution x, y;
      execute(cfg, prefix, x);
      execute(cfg, prefix, y);
      bool same = x.points.size() == y.points.size();
      for (std::size_t t = 0; same and t < cfg.progs.size(); ++t) same = x.results[t].trace == y.results[t].trace and x.results[t].balance_blocks == y.results[t].balance_blocks;
      if (not same) { std::printf("HARNESS-ERROR the same schedule gave two different executions\n"); return 2; }
      check(cfg, prefix, x);
      std::printf("%zu scheduling points\n", x.points.size());
      for (auto& [k, v] : rep.viols) std::printf("violated: %s  (%s)\n", k.c_str(), v.what.c_str());
      return rep.viols.empty() ? 0 : 1;
   }
   const bool deep = opt.thorough();
   // configurations: every assignment of programs to 2 threads (both shapes), and to 3 threads (isolated shape)
   std::vector<std::pair<Config, int>> work;       // (configuration, preemption bound)
   for (int shape = 0; shape < 2; ++shape)
      for (int a = 0; a < NPROG; ++a) for (int b = 0; b < NPROG; ++b) work.push_back({ Config{ shape, { a, b } }, deep and shape == 0 ? 3 : 2 });
   for (int a = 0; a < NPROG; ++a) for (int b = 0; b < NPROG; ++b) for (int c = 0; c < NPROG; ++c) if (deep or (a <= b and b <= c)) work.push_back({ Config{ 0, { a, b, c } }, deep ? 2 : 1 });
   long long max_points = 0;
   for (std::size_t i = 0; i < work.size(); ++i) {
      if (not opt.mine((long long) i)) continue;
      long long budget = deep ? 4000000 : 400000;
      const long long before = n_schedules;
      explore(work[i].first, { }, work[i].second, budget);
      rep.member("schedules_per_configuration", config_text(work[i].first) + "=" + std::to_string(n_schedules - before));
      rep.count("distinct_nontrivial");
   }
   (void) max_points;
   for (auto& o : outcomes) rep.member("outcomes", o);
   if (opt.shard == 0) {
      rep.info("bounds", vf::JObj{}.str("two_threads", deep ? "all 2x25 program assignments, <= 3 preemptions (isolated shape) / <= 2 (lifecycle shape)" : "all 2x25 program assignments, <= 2 preemptions")
                            .str("three_threads", deep ? "all 125 assignments, <= 2 preemptions" : "35 assignments up to permutation, <= 1 preemption")
                            .str("scheduling_points", "operator new, operator delete, std::_Hash_bytes, every stream write, operation boundaries, thread start/end, rendezvous").done());
      rep.sample(vf::JObj{}.str("configuration", "isolated:declare+print|regions+print").str("schedule", "at point 37 run alternative 1, at point 112 run alternative 1").str("checked", "each thread's trace == its sequential trace; node sets disjoint up to constants; per-thread allocation balance").done());
   }
   rep.write(opt);
   return 0;
#endif
}
