// C12 — regions form a tree rooted at the global region; owners and positions are right.
// Every history up to a depth bound of region-opening operations (13 kinds), each applied to ANY region created so
// far (hence every tree shape and creation order up to the depth), under three kinds of unit.  Reference model:
// parent-pointer tree + owner map.  The whole forest is re-validated in every final state.
#include <algorithm>
#include <map>
#include <memory>
#include <string>
#include <vector>

#include <ipr/impl>

#include "envctl.hpp"
#include "report.hpp"

namespace {
   vf::Report rep;
   vf::Options opt;
   bool verbose = false;

   enum Op { Subregion, Class, Union, Enum, Namespace, Closure, Block, BlockHandler, Mapping, Lambda, Requires, FunctionMorphism, Where, NOPS };
   const char* op_name[] = { "subregion", "class", "union", "enum", "namespace", "closure", "block", "block+handler", "mapping", "lambda",
                             "requires", "function-morphism", "where" };

   enum OwnerRule { MustBe, Unspecified, MustBeNone };

   struct RegionInfo {
      const ipr::Region* region;
      ipr::impl::Region* hetero;       // non-null when sub-regions can be made directly
      int parent;                      // index, -1 for the root
      OwnerRule rule;
      const ipr::Expr* owner;
      std::string what;
      int depth;
   };

   // The second (or transient) Lexicon of an execution is not byte-for-byte the twin of the first: it starts by interning a word of its
   // own, so that whatever it writes lands at other offsets than the first one's (two Lexicons sharing storage they should not
   // share overwrite each other with DIFFERENT bytes, not with the same ones).
   bool other_world = false;
   struct Salted { explicit Salted(ipr::impl::Lexicon& l) { if (other_world) { (void) l.get_identifier(u8"the-other-lexicon-was-here"); (void) l.get_string(u8"0123456789-other"); } } };
   struct World {
      ipr::impl::Lexicon lex;
      Salted salted{ lex };
      std::unique_ptr<ipr::impl::Translation_unit> tu;
      std::unique_ptr<ipr::impl::Module> module;
      ipr::impl::Module_unit* munit = nullptr;
      ipr::impl::Region* global = nullptr;
      const ipr::Translation_unit* unit_iface = nullptr;
      int unit_kind;
      std::vector<RegionInfo> regions;
      std::vector<std::string> errors;       // (key, what) pairs flattened: key \t what
      int counter = 0;

      explicit World(int kind) : unit_kind(kind)
      {
         if (kind == 0) { tu = std::make_unique<ipr::impl::Translation_unit>(lex); global = tu->global_region(); unit_iface = tu.get(); }
         else {
            module = std::make_unique<ipr::impl::Module>(lex);
            if (kind == 1) { global = module->iface.global_region(); unit_iface = &module->iface; }
            else { munit = module->make_unit(); global = munit->global_region(); unit_iface = munit; }
         }
         regions.push_back({ global, global, -1, MustBe, &unit_iface->global_namespace(), "global region", 0 });
      }

      void err(std::string key, const std::string& what)
      {
         for (auto& c : key) if (c == ' ') c = '-';
         errors.push_back(key + "\t" + what);
      }

      int add(const ipr::Region& r, ipr::impl::Region* h, int parent, OwnerRule rule, const ipr::Expr* owner, const std::string& what)
      {
         regions.push_back({ &r, h, parent, rule, owner, what, regions[parent].depth + 1 });
         return int(regions.size()) - 1;
      }

      const ipr::Name& fresh_name() { return lex.get_identifier(std::u8string(1, char8_t('a' + counter++ % 26))); }

      bool open(int op, int target)
      {
         const ipr::Region& parent = *regions[target].region;
         rep.count("transitions");
         switch (op) {
         case Subregion: {
            auto* h = regions[target].hetero;
            if (h == nullptr) return false;                       // not applicable to homogeneous regions
            auto* r = h->make_subregion();
            add(*r, r, target, Unspecified, nullptr, "sub-region");
            return true;
         }
         case Class: {
            auto* c = lex.make_class(parent);
            c->id = &fresh_name();
            add(c->region(), &c->body, target, MustBe, c, "class body");
            auto* b = c->declare_base(lex.int_type());
            auto* b2 = c->declare_base(lex.char_type());
            int br = add(b->home_region(), nullptr, target, MustBe, c, "base-specifier region");
            if (&b2->home_region() != regions[br].region) err("C12:base:home-region", "two bases of one class report different home regions");
            if (std::size_t(b->position()) != 0 or std::size_t(b2->position()) != 1) err("C12:base:position", "bases do not report their zero-based positions");
            if (&b->lexical_region() != &b->home_region()) err("C12:base:lexical-region", "a base's lexical region differs from its home region");
            // a member declared in the class body lives there
            auto* f = c->declare_field(fresh_name(), lex.int_type());
            (void) f;
            return true;
         }
         case Union: { auto* u = lex.make_union(parent); u->id = &fresh_name(); add(u->region(), &u->body, target, MustBe, u, "union body"); return true; }
         case Namespace: { auto* n = lex.make_namespace(parent); n->id = &fresh_name(); add(n->region(), &n->body, target, MustBe, n, "namespace body"); return true; }
         case Closure: { auto* c = lex.make_closure(parent); add(c->region(), &c->body, target, MustBe, c, "closure body"); return true; }
         case Enum: {
            auto* e = lex.make_enum(parent, counter % 2 ? ipr::Enum::Kind::Scoped : ipr::Enum::Kind::Legacy);
            e->id = &fresh_name();
            int er = add(e->region(), nullptr, target, MustBe, e, "enum body");
            auto* m0 = e->add_member(fresh_name());
            auto* m1 = e->add_member(fresh_name());
            auto* m2 = e->add_member(fresh_name());
            if (&m0->home_region() != regions[er].region or &m2->home_region() != regions[er].region) err("C12:enumerator:home-region", "an enumerator's home region is not the body of its enumeration");
            if (&m1->lexical_region() != regions[er].region) err("C12:enumerator:lexical-region", "an enumerator's lexical region is not the body of its enumeration");
            if (std::size_t(m0->position()) != 0 or std::size_t(m1->position()) != 1 or std::size_t(m2->position()) != 2) err("C12:enumerator:position", "enumerators do not report their zero-based positions");
            return true;
         }
         case Block: {
            auto* b = lex.make_block(parent);
            add(b->region(), &b->lexical_region, target, MustBe, b, "block");
            return true;
         }
         case BlockHandler: {
            auto* b = lex.make_block(parent);
            add(b->region(), &b->lexical_region, target, MustBe, b, "guarded block");
            for (int k = 0; k < 2; ++k) {
               auto* h = b->new_handler(fresh_name(), k ? lex.ellipsis_type() : lex.int_type());
               const ipr::Handler& hi = *h;
               const ipr::Block& body = hi.body();
               const ipr::Region& body_region = body.region();
               const ipr::Region& eh = body_region.enclosing();
               // the handler region: binds exactly the exception parameter, enclosed by the region enclosing the guarded block
               int ehr = add(eh, nullptr, target, Unspecified, nullptr, "handler parameter region");
               add(body_region, &h->body().lexical_region, ehr, MustBe, &body, "handler body");
               const ipr::Scope& sc = eh.bindings();
               if (sc.size() != 1 or &*sc.elements().begin() != static_cast<const ipr::Decl*>(&hi.exception()))
                  err("C12:handler:bindings", "the region enclosing a handler's body does not bind exactly its exception parameter");
            }
            return true;
         }
         case Mapping: case Lambda: {
            const ipr::Mapping_level level{ std::size_t(regions[target].depth) };
            ipr::impl::Parameter_list* pl;
            const ipr::Expr* owner;
            if (op == Mapping) { auto* m = lex.make_mapping(parent, level); pl = &m->inputs; owner = m; }
            else { auto* l = lex.make_lambda(parent, level); pl = &l->inputs; owner = l; }
            const ipr::Parameter_list& ipl = *pl;
            int pr = add(ipl.region(), nullptr, target, MustBe, owner, op == Mapping ? "mapping parameters" : "lambda parameters");
            if (ipl.level() != level) err("C12:parameter-list:level", "a parameter list does not report the level it was created at");
            for (int k = 0; k < 3; ++k) {
               auto* p = pl->add_member(fresh_name(), lex.int_type());
               const ipr::Parameter& ip = *p;
               if (&ip.home_region() != regions[pr].region) err("C12:parameter:home-region", "a parameter's home region is not its list's region");
               if (&ip.lexical_region() != regions[pr].region) err("C12:parameter:lexical-region", "a parameter's lexical region is not its list's region");
               if (ip.level() != level) err("C12:parameter:level", "a parameter does not report the nesting level of its list");
               if (std::size_t(ip.position()) != std::size_t(k)) err("C12:parameter:position", "a parameter does not report its zero-based position");
            }
            return true;
         }
         case Requires: {
            auto* r = lex.make_requires(parent, ipr::Mapping_level{ 1 });
            const ipr::Requires& ir = *r;
            int pr = add(ir.parameters().region(), nullptr, target, Unspecified, nullptr, "requires parameters");
            auto* p = r->formals.add_member(fresh_name(), lex.typename_type());
            if (&static_cast<const ipr::Parameter&>(*p).home_region() != regions[pr].region or std::size_t(p->position()) != 0) err("C12:parameter:home-region", "a requires-parameter's home region/position is wrong");
            return true;
         }
         case FunctionMorphism: {
            auto* f = global->make_function_morphism(parent, ipr::Mapping_level{ 3 });
            const ipr::cxx_form::Morphism::Function& fi = *f;
            int pr = add(fi.parameters().region(), nullptr, target, Unspecified, nullptr, "function-declarator parameters");
            auto* p0 = f->inputs.add_member(fresh_name(), lex.int_type());
            auto* p1 = f->inputs.add_member(fresh_name(), lex.char_type());
            if (&static_cast<const ipr::Parameter&>(*p1).home_region() != regions[pr].region or std::size_t(p0->position()) != 0 or std::size_t(p1->position()) != 1
                or std::size_t(static_cast<const ipr::Parameter&>(*p1).level()) != 3)
               err("C12:parameter:home-region", "a function-declarator parameter's home region/position/level is wrong");
            return true;
         }
         case Where: {
            auto* w = lex.make_where(parent);
            add(w->region, &w->region, target, Unspecified, nullptr, "where bindings");
            const ipr::Where& iw = *w;
            if (&iw.attendant() != static_cast<const ipr::Expr*>(&w->region.bindings())) err("C12:where:attendant", "the attendant of a where-expression is not the scope of its region");
            return true;
         }
         }
         return false;
      }

      void validate()
      {
         const ipr::Region* root = regions[0].region;
         for (std::size_t i = 0; i < regions.size(); ++i) {
            const RegionInfo& ri = regions[i];
            const ipr::Region& r = *ri.region;
            rep.count("transitions", 4);
            if (ri.parent < 0) {
               if (not r.global()) err("C12:global:root-not-global", "the unit's global region does not report itself global");
               bool refused = false;
               try { (void) r.enclosing(); }
               catch (const std::logic_error&) { refused = true; }
               catch (...) { err("C12:global:enclosing-wrong-exception", "asking the global region for its enclosing region throws something that is not a logic_error"); refused = true; }
               if (not refused) err("C12:global:enclosing-answered", "the global region has an enclosing region");
            }
            else {
               if (r.global()) err(std::string("C12:global:non-root-global:") + ri.what, "a " + ri.what + " region reports itself global");
               const ipr::Region* enc = nullptr;
               try { enc = &r.enclosing(); }
               catch (const std::exception& e) { err(std::string("C12:enclosing:refused:") + ri.what, "a " + ri.what + " region has no enclosing region: " + e.what()); }
               if (enc != nullptr and enc != regions[ri.parent].region)
                  err(std::string("C12:enclosing:wrong-parent:") + ri.what, "a " + ri.what + " region is not enclosed by the region it was created in (" + regions[ri.parent].what + ")");
               // the outward walk reaches the root in finitely many steps
               const ipr::Region* cur = &r;
               int steps = 0;
               try {
                  while (not cur->global() and steps <= ri.depth + 3) { cur = &cur->enclosing(); ++steps; }
               }
               catch (const std::exception&) { cur = nullptr; }
               if (cur != root) err(std::string("C12:walk:does-not-reach-global:") + ri.what, "walking outward from a " + ri.what + " region does not reach the unit's global region");
               else if (steps != ri.depth) err(std::string("C12:walk:wrong-depth:") + ri.what, "walking outward from a " + ri.what + " region takes " + std::to_string(steps) + " steps, expected " + std::to_string(ri.depth));
            }
            auto owner = r.owner();
            if (ri.rule == MustBe) {
               if (not owner.is_valid()) err(std::string("C12:owner:none:") + ri.what, "the " + ri.what + " region has no owner");
               else if (&owner.get() != ri.owner) err(std::string("C12:owner:wrong:") + ri.what, "the " + ri.what + " region names something else as its owner");
            }
         }
         // unit-level facts
         const ipr::Namespace& ns = unit_iface->global_namespace();
         auto id = ipr::util::view<ipr::Identifier>(ns.name());
         if (id == nullptr or id->string().size() != 0) err("C12:unit:global-namespace-named", "the global namespace is not unnamed");
         else if (id != &lex.get_identifier(u8"")) err("C12:unit:global-namespace-name-foreign", "the name of the unit's global namespace is not the unit's own Lexicon's unnamed identifier");
         if (&ns.type() != &static_cast<const ipr::Lexicon&>(lex).namespace_type()) err("C12:unit:global-namespace-type", "the global namespace is not typed `namespace`");
         if (&ns.region() != root) err("C12:unit:global-namespace-region", "the global namespace's region is not the global region");
         if (module) {
            const ipr::Module& m = *module;
            if (&m.interface_unit() != &module->iface) err("C12:unit:interface-unit", "the module does not return its interface unit");
            if (&m.interface_unit().parent_module() != &m) err("C12:unit:parent-module", "the interface unit does not link back to its module");
            std::size_t k = 0;
            for (auto& u : m.implementation_units()) { if (&u.parent_module() != &m) err("C12:unit:parent-module", "an implementation unit does not link back to its module"); ++k; }
            if (k != (munit ? 1u : 0u)) err("C12:unit:implementation-units", "the module does not list its implementation units");
            if (&m.interface_unit().global_namespace() == (munit ? &munit->global_namespace() : nullptr)) err("C12:unit:shared-global-namespace", "two units share one global namespace");
         }
      }
   };

   struct Hist {
      int unit;
      std::vector<int> steps;        // op * 64 + target
      int twin = 0;                  // 1: a second Lexicon opens the same regions in lockstep and is validated too; 2: after every step a transient
                                     //    Lexicon repeats the history so far, is validated, and dies
      std::string text() const
      {
         std::string s = unit == 0 ? "translation unit:" : unit == 1 ? "interface unit:" : "module unit:";
         for (int x : steps) s += std::string(" ") + op_name[x / 64] + "@r" + std::to_string(x % 64);
         if (twin == 1) s += " [a second Lexicon in lockstep]";
         if (twin == 2) s += " [a transient Lexicon after every step]";
         return s;
      }
   };

   const Hist* cur = nullptr;
   void describe_current(char* buf, std::size_t n)
   {
      if (cur == nullptr) { buf[0] = 0; return; }
      std::size_t used = std::snprintf(buf, n, "\"pass\":\"C12\",\"unit\":%d,\"ops\":[", cur->unit);
      for (std::size_t i = 0; i < cur->steps.size() and used + 16 < n; ++i) used += std::snprintf(buf + used, n - used, "%s%d", i ? "," : "", cur->steps[i]);
      std::snprintf(buf + used, n - used, "]");
   }

   // returns the number of regions after the history (for the enumerator), or -1 if a step was inapplicable
   int run(const Hist& h, bool leaf)
   {
      cur = &h;
      int nregions = -1;
      vf::env::set_alloc(vf::env::Alloc::Ascending);
      {
         World w(h.unit);
         std::unique_ptr<World> second;
         if (leaf and h.twin == 1) { other_world = true; second = std::make_unique<World>(h.unit); other_world = false; }
         bool ok = true;
         std::size_t done = 0;
         for (int x : h.steps) {
            if (x % 64 >= int(w.regions.size()) or not w.open(x / 64, x % 64)) { ok = false; break; }
            if (leaf) rep.count("states");
            ++done;
            if (second) { second->open(x / 64, x % 64); rep.count("transitions"); }
            if (leaf and h.twin == 2) {
               other_world = true;
               World t(h.unit);
               other_world = false;
               for (std::size_t j = 0; j < done; ++j) { t.open(h.steps[j] / 64, h.steps[j] % 64); rep.count("transitions"); }
               t.validate();
               for (auto& e : t.errors) w.errors.push_back(e + " (observed on a transient Lexicon that repeated the history so far)");
            }
         }
         if (ok) {
            nregions = int(w.regions.size());
            if (leaf) {
               w.validate();
               if (second) { second->validate(); for (auto& e : second->errors) w.errors.push_back(e + " (observed on the second of two Lexicons in lockstep)"); }
               rep.count("traces");
               if (rep.samples.size() < rep.sample_cap and h.steps.size() >= 3) rep.sample(vf::JObj{}.str("history", h.text()).num("regions", (long long) w.regions.size()).num("deepest", w.regions.back().depth).done());
               rep.member("outcomes", std::to_string(w.regions.size()) + ":" + std::to_string(w.regions.back().depth));
               if (w.regions.back().depth >= 2) rep.count("distinct_nontrivial");
            }
            for (auto& e : w.errors) {
               auto tab = e.find('\t');
               std::vector<long long> ops(h.steps.begin(), h.steps.end());
               rep.violation(e.substr(0, tab), static_cast<long long>(h.steps.size()) * 4 + h.unit, e.substr(tab + 1) + " [" + h.text() + "]",
                             vf::JObj{}.str("pass", "C12").num("unit", h.unit).num("twin", h.twin).raw("ops", vf::jarr(ops)).str("history", h.text()).done());
               if (verbose) std::printf("  VIOLATION %s: %s\n", e.substr(0, tab).c_str(), e.substr(tab + 1).c_str());
            }
         }
      }
      vf::env::set_alloc(vf::env::Alloc::Malloc);
      vf::env::arena_reset();
      cur = nullptr;
      return nregions;
   }

   // Long member lists: positions stay equal to the index far beyond the handful of members the histories add.
   void long_lists(int n, unsigned which = ~0u)
   {
      ipr::impl::Lexicon lex;
      ipr::impl::Translation_unit unit{ lex };
      auto& G = *unit.global_region();
      auto name = [&](int i) -> const ipr::Name& { return lex.get_identifier(std::u8string(u8"m") + char8_t('a' + i % 26) + char8_t('a' + i / 26 % 26) + char8_t('a' + i / 676 % 26) + char8_t('a' + i / 17576 % 26)); };
      auto bad = [&](const std::string& key, const std::string& what, int i) {
         rep.violation(key, i, what + " [list of " + std::to_string(n) + " members, member #" + std::to_string(i) + "]", vf::JObj{}.str("pass", "C12").str("family", "long-list").raw("ops", vf::jarr(std::vector<long long>{ n, i })).done());
      };
      auto params = [&](ipr::impl::Parameter_list& pl, const ipr::Region& home, std::size_t level, const char* what) {
         std::vector<const ipr::Parameter*> made;
         for (int i = 0; i < n; ++i) { if (i % 1024 == 0) opt.kick(); made.push_back(pl.add_member(name(i), lex.int_type())); }
         for (int i = 0; i < n; ++i) {
            rep.count("transitions");
            const ipr::Parameter& p = *made[std::size_t(i)];
            if (std::size_t(p.position()) != std::size_t(i)) { bad("C12:parameter:position", std::string("a parameter of a ") + what + " reports position " + std::to_string(std::size_t(p.position())), i); break; }
            if (std::size_t(p.level()) != level) { bad("C12:parameter:level", std::string("a parameter of a ") + what + " does not report the nesting level of its list", i); break; }
            if (&p.home_region() != &home) { bad("C12:parameter:home-region", std::string("a parameter's home region is not its list's region (") + what + ")", i); break; }
         }
         rep.count("states", n);
      };
      auto* m = lex.make_mapping(G, ipr::Mapping_level{ 2 });
      if (which >> 0 & 1) params(m->inputs, static_cast<const ipr::Mapping&>(*m).parameters().region(), 2, "mapping");
      auto* l = lex.make_lambda(G, ipr::Mapping_level{ 1 });
      if (which >> 1 & 1) params(l->inputs, static_cast<const ipr::Lambda&>(*l).parameters().region(), 1, "lambda");
      auto* rq = lex.make_requires(G, ipr::Mapping_level{ 3 });
      if (which >> 2 & 1) params(rq->formals, static_cast<const ipr::Requires&>(*rq).parameters().region(), 3, "requires-expression");
      auto* fm = G.make_function_morphism(G, ipr::Mapping_level{ 0 });
      if (which >> 3 & 1) params(fm->inputs, static_cast<const ipr::cxx_form::Morphism::Function&>(*fm).parameters().region(), 0, "function declarator");
      auto* e = lex.make_enum(G, ipr::Enum::Kind::Legacy);
      std::vector<const ipr::Enumerator*> ens;
      if (which >> 4 & 1) for (int i = 0; i < n; ++i) { if (i % 1024 == 0) opt.kick(); ens.push_back(e->add_member(name(i))); }
      for (int i = 0; i < int(ens.size()); ++i) {
         rep.count("transitions");
         if (std::size_t(ens[std::size_t(i)]->position()) != std::size_t(i)) { bad("C12:enumerator:position", "an enumerator reports position " + std::to_string(std::size_t(ens[std::size_t(i)]->position())), i); break; }
         if (&ens[std::size_t(i)]->home_region() != &static_cast<const ipr::Enum&>(*e).region()) { bad("C12:enumerator:home-region", "an enumerator's home region is not the body of its enumeration", i); break; }
      }
      auto* c = lex.make_class(G);
      const int nb = which >> 5 & 1 ? std::min(n, 2000) : 0;
      std::vector<const ipr::Base_type*> bs;
      for (int i = 0; i < nb; ++i) bs.push_back(c->declare_base(lex.get_pointer(i ? bs.back()->type() : static_cast<const ipr::Type&>(lex.int_type()))));
      for (int i = 0; i < nb; ++i) {
         rep.count("transitions");
         if (std::size_t(bs[std::size_t(i)]->position()) != std::size_t(i)) { bad("C12:base:position", "a base reports position " + std::to_string(std::size_t(bs[std::size_t(i)]->position())), i); break; }
      }
      rep.count("states", n + nb);
      rep.count("traces");
   }

   void dfs(Hist& h, int depth, int nregions, long long& counter)
   {
      for (int op = 0; op < NOPS; ++op)
         for (int t = 0; t < nregions; ++t) {
            h.steps.push_back(op * 64 + t);
            if (int(h.steps.size()) == depth) {
               if (opt.mine(counter++)) {
                  run(h, true);
                  if (depth <= 3) { h.twin = 1; run(h, true); h.twin = 2; run(h, true); h.twin = 0; }       // more than one Lexicon
               }
            }
            else {
               int n2 = run(h, false);
               if (n2 > 0) dfs(h, depth, n2, counter);
            }
            h.steps.pop_back();
            if (opt.expired()) return;
         }
   }
}

int main(int argc, char** argv)
{
   opt = vf::parse_options(argc, argv);
   vf::install_crash_handler(opt, "C12");
   vf::crash_describe = describe_current;
   if (not opt.replay.empty()) {
      verbose = true;
      auto text = vf::slurp(opt.replay);
      auto ops = vf::json_int_array(text, "ops");
      if (text.find("\"long-list\"") != std::string::npos and not ops.empty()) { std::printf("replay C12: member lists of %lld\n", ops[0]); long_lists(int(ops[0])); }
      else {
      Hist h{ int(vf::json_int(text, "unit")), std::vector<int>(ops.begin(), ops.end()), int(vf::json_int(text, "twin")) };
      std::printf("replay C12: %s\n", h.text().c_str());
      run(h, true);
      }
      for (auto& [k, v] : rep.viols) std::printf("violated: %s  (%s)\n", k.c_str(), v.what.c_str());
      return rep.viols.empty() ? 0 : 1;
   }
   const bool deep = opt.thorough();
   if (opt.shard == 0) long_lists(300);
   if (opt.shard == 1 % opt.shards) long_lists(1100);
   // past 2^16 (a position kept in a narrow field wraps there); additions are quadratic in the library, so one list per shard
   for (unsigned k = 0; k < 5; ++k) if (opt.shard == int((2 + k) % unsigned(opt.shards))) long_lists(deep ? 70000 : 66000, k == 4 ? 3u << 4 : 1u << k);
   const int depth_by_unit[3] = { deep ? 5 : 4, deep ? 4 : 3, deep ? 4 : 3 };
   for (int unit = 0; unit < 3; ++unit)
      for (int d = 0; d <= depth_by_unit[unit]; ++d) {
         Hist h{ unit, {} };
         long long counter = 0;
         if (d == 0) { if (opt.shard == 0) run(h, true); continue; }
         dfs(h, d, 1, counter);
         if (opt.expired()) { rep.cap("deadline: unit " + std::to_string(unit) + " depth " + std::to_string(d)); break; }
         if (opt.shard == 0) rep.member("completed", "unit=" + std::to_string(unit) + " depth=" + std::to_string(d));
      }
   if (opt.shard == 0) {
      rep.info("bounds", vf::JObj{}.num("operations", NOPS).num("depth_translation_unit", depth_by_unit[0]).num("depth_module_units", depth_by_unit[1])
                            .str("targets", "every operation is applied to every region created so far (12 of 13 also to homogeneous regions)").done());
      rep.sample(vf::JObj{}.str("history", Hist{ 0, { BlockHandler * 64 + 0, Class * 64 + 4, Mapping * 64 + 6 } }.text())
                    .str("checked", "enclosing()==model parent, outward walk reaches the global region in exactly depth steps, global() only at the root, owner(), parameter/enumerator/base home region, level, position").done());
   }
   rep.write(opt);
   return 0;
}
