// C10 — specifier and qualifier sets are a Boolean algebra with exact decomposition.
// The complete configuration space is enumerated: all 2^18 subsets of basic specifiers, all 2^3 subsets of basic
// qualifiers; binary laws on every pair (A, B) with B small or co-small (quick) / on ALL 2^36 pairs (thorough).
#include <algorithm>
#include <cstdint>
#include <string>
#include <vector>
#include <memory>

#include <ipr/impl>

#include "report.hpp"

namespace {
   vf::Report rep;
   vf::Options opt;
   bool verbose = false;

   // The basic names, as documented by ipr::Lexicon (17 named accessors) plus `constinit`.
   const char8_t* const spec_names[] = {
      u8"=0", u8"export", u8"public", u8"protected", u8"private", u8"consteval", u8"constexpr", u8"constinit",
      u8"explicit", u8"extern", u8"friend", u8"inline", u8"mutable", u8"register", u8"static", u8"thread_local",
      u8"typedef", u8"virtual",
   };
   const char8_t* const qual_names[] = { u8"const", u8"volatile", u8"restrict" };

   // Every word the library reserves (the spellings of C++ it knows statically).
   const char8_t* const reserved[] = {
      u8"...", u8"=0", u8"C", u8"C++", u8"auto", u8"bool", u8"char", u8"char16_t", u8"char32_t", u8"char8_t", u8"class",
      u8"const", u8"consteval", u8"constexpr", u8"constinit", u8"default", u8"delete", u8"double", u8"enum", u8"explicit",
      u8"export", u8"extern", u8"false", u8"float", u8"friend", u8"inline", u8"int", u8"long", u8"long double",
      u8"long long", u8"mutable", u8"namespace", u8"nullptr", u8"private", u8"protected", u8"public", u8"register",
      u8"restrict", u8"short", u8"signed char", u8"static", u8"this", u8"thread_local", u8"true", u8"typedef",
      u8"typename", u8"union", u8"unsigned char", u8"unsigned int", u8"unsigned long", u8"unsigned long long",
      u8"unsigned short", u8"virtual", u8"void", u8"volatile", u8"wchar_t",
   };

   std::string narrow(const char8_t* s) { return reinterpret_cast<const char*>(s); }
   std::string narrow(ipr::util::word_view w) { return { reinterpret_cast<const char*>(w.data()), w.size() }; }

   struct SpecKind {
      using Set = ipr::Specifiers;
      using Basic = ipr::Basic_specifier;
      static constexpr const char* tag = "spec";
      static Set of(const ipr::impl::Lexicon& l, Basic b) { return l.specifiers(b); }
   };
   struct QualKind {
      using Set = ipr::Qualifiers;
      using Basic = ipr::Basic_qualifier;
      static constexpr const char* tag = "qual";
      static Set of(const ipr::impl::Lexicon& l, Basic b) { return l.qualifiers(b); }
   };

   template<class K>
   struct Algebra {
      using Set = typename K::Set;
      using Basic = typename K::Basic;
      ipr::impl::Lexicon& lex;
      std::vector<const char8_t*> names;
      std::vector<const ipr::Logogram*> logos;
      std::vector<Set> single;
      std::vector<Set> value_of;         // mask -> implementation value
      int n = 0;

      std::string key(const std::string& k) const { return std::string("C10:") + K::tag + ":" + k; }

      void fail(const std::string& k, long long rank, const std::string& what, long long op, long long a, long long b)
      {
         rep.violation(key(k), rank, what, vf::JObj{}.str("pass", "C10").str("kind", K::tag)
                       .raw("ops", vf::jarr(std::vector<long long>{ op, a, b })).done());
         if (verbose) std::printf("  VIOLATION %s: %s\n", key(k).c_str(), what.c_str());
      }

      std::string mask_names(std::uint32_t m) const
      {
         std::string r = "{";
         for (int i = 0; i < n; ++i)
            if (m & (1u << i)) r += (r.size() > 1 ? "," : "") + narrow(names[i]);
         return r + "}";
      }

      bool setup(const std::vector<const char8_t*>& nm)
      {
         names = nm;
         n = int(names.size());
         for (int i = 0; i < n; ++i) {
            auto& logo = lex.get_logogram(lex.get_string(names[i]));
            logos.push_back(&logo);
            rep.count("transitions");
            try {
               single.push_back(K::of(lex, Basic{ logo }));
            }
            catch (...) {
               fail("basic-name-refused:" + narrow(names[i]), 0, "asking for the set of basic name '" + narrow(names[i]) + "' was refused", 0, i, 0);
               return false;
            }
            if (single.back() == Set{})
               fail("basic-empty:" + narrow(names[i]), 0, "the set of '" + narrow(names[i]) + "' is empty", 0, i, 0);
         }
         for (int i = 0; i < n; ++i)
            for (int j = i + 1; j < n; ++j) {
               if (single[i] == single[j] or (single[i] & single[j]) != Set{})
                  fail("basic-collision", i * 100 + j, "'" + narrow(names[i]) + "' and '" + narrow(names[j]) + "' share an element", 1, i, j);
            }
         return true;
      }

      // decompose(v) must be exactly the names of mask m
      bool check_decompose(std::uint32_t m, Set v, const char* how, long long op, long long a, long long b)
      {
         auto parts = lex.decompose(v);
         rep.count("transitions");
         std::uint32_t got = 0;
         bool repeated = false, invented = false;
         for (auto& p : parts) {
            int idx = -1;
            for (int i = 0; i < n; ++i)
               if (&p.logogram() == logos[i]) idx = i;
            if (idx < 0) { invented = true; continue; }
            if (got & (1u << idx)) repeated = true;
            got |= 1u << idx;
         }
         if (got != m or repeated or invented) {
            fail(std::string("decompose-mismatch:") + how, __builtin_popcount(m),
                 "decompose(" + mask_names(m) + ") returned " + mask_names(got) + (repeated ? " with a repeat" : "") + (invented ? " plus an unknown element" : ""),
                 op, a, b);
            return false;
         }
         return true;
      }

      void all_subsets()
      {
         const std::uint32_t total = 1u << n;
         value_of.assign(total, Set{});
         for (std::uint32_t m = 1; m < total; ++m) {
            int low = __builtin_ctz(m);
            value_of[m] = value_of[m & (m - 1)] | single[low];
            rep.count("transitions");
         }
         // exact decomposition + injectivity
         std::vector<Set> sorted(value_of);
         std::sort(sorted.begin(), sorted.end());
         for (std::uint32_t m = 1; m < total; ++m)
            if (sorted[m] == sorted[m - 1]) { fail("not-injective", 0, "two different subsets have the same value", 2, m, 0); break; }
         for (std::uint32_t m = 0; m < total; ++m) {
            if (not opt.mine(m)) continue;
            check_decompose(m, value_of[m], "union-of-members", 3, m, 0);
            // building the same subset in the opposite order, and with |=, gives the same value
            Set alt{};
            for (int i = n - 1; i >= 0; --i)
               if (m & (1u << i)) alt |= single[i];
            if (alt != value_of[m]) fail("union-order-dependent", __builtin_popcount(m), "union depends on the order for " + mask_names(m), 3, m, 0);
            rep.count("states");
            rep.count("traces");
            if (m != 0) rep.count("distinct_nontrivial");
         }
         if (opt.shard == 0) rep.sample(vf::JObj{}.str("kind", K::tag).str("subset", mask_names(total > 8 ? 0x2A5u & (total - 1) : 5)).str("checked", "decompose(union of members) == members").done());
      }

      void check_pair(std::uint32_t a, std::uint32_t b)
      {
         const Set A = value_of[a], B = value_of[b];
         if ((A | B) != value_of[a | b]) fail("union", __builtin_popcount(a) + __builtin_popcount(b), mask_names(a) + " | " + mask_names(b) + " is not the union", 4, a, b);
         if ((A & B) != value_of[a & b]) fail("intersection", __builtin_popcount(a) + __builtin_popcount(b), mask_names(a) + " & " + mask_names(b) + " is not the intersection", 5, a, b);
         if ((A ^ B) != value_of[a ^ b]) fail("symmetric-difference", __builtin_popcount(a) + __builtin_popcount(b), mask_names(a) + " ^ " + mask_names(b) + " is not the symmetric difference", 6, a, b);
         if (ipr::implies(A, B) != ((a & b) == b)) fail("implies", __builtin_popcount(a) + __builtin_popcount(b), "implies(" + mask_names(a) + ", " + mask_names(b) + ") is wrong", 7, a, b);
         Set t = A; t |= B;
         Set u = A; u &= B;
         Set w = A; w ^= B;
         if (t != value_of[a | b] or u != value_of[a & b] or w != value_of[a ^ b])
            fail("compound-assignment", __builtin_popcount(a) + __builtin_popcount(b), "|= &= ^= disagree with the set operation on " + mask_names(a) + ", " + mask_names(b), 8, a, b);
      }

      void pairs(bool all)
      {
         const std::uint32_t total = 1u << n;
         std::vector<std::uint32_t> bs;
         if (all or n <= 4) {
            for (std::uint32_t b = 0; b < total; ++b) bs.push_back(b);
         }
         else {
            bs.push_back(0);
            for (int i = 0; i < n; ++i) bs.push_back(1u << i);
            for (int i = 0; i < n; ++i) for (int j = i + 1; j < n; ++j) bs.push_back((1u << i) | (1u << j));
            auto k = bs.size();
            for (std::size_t i = 0; i < k; ++i) bs.push_back(~bs[i] & (total - 1));
         }
         long long done = 0;
         for (std::uint32_t a = 0; a < total; ++a) {
            if (not opt.mine(a)) continue;
            for (auto b : bs) check_pair(a, b);
            done += bs.size();
            if ((a & 0xff) == 0 and opt.expired()) { rep.cap(std::string("deadline during binary laws of ") + K::tag); break; }
         }
         rep.count("transitions", done * 7);
         rep.count("pairs_checked", done);
         rep.count("traces", done);
         if (opt.shard == 0) {
            rep.info(std::string("binary_laws_") + K::tag, vf::jstr(all or n <= 4 ? "all pairs of subsets" : "A any subset x B of size <=2 or co-size <=2"));
            rep.sample(vf::JObj{}.str("kind", K::tag).str("A", mask_names(0x15u & (total - 1))).str("B", mask_names(0x6u & (total - 1))).str("checked", "| & ^ implies |= &= ^= against the mask model").done());
         }
      }

      void named(const char* nm, Set got)
      {
         for (int i = 0; i < n; ++i)
            if (narrow(names[i]) == nm) {
               rep.count("transitions");
               if (got != single[i]) fail(std::string("accessor:") + nm, 0, std::string("the named accessor for '") + nm + "' differs from the mapping of its name", 9, i, 0);
               return;
            }
         fail(std::string("accessor-unknown:") + nm, 0, "harness table error", 9, 0, 0);
      }

      void unknown_refused()
      {
         std::vector<std::pair<std::string, const ipr::Logogram*>> probes;
         for (auto w : reserved) {
            bool basic = false;
            for (auto b : names) if (narrow(b) == narrow(w)) basic = true;
            if (not basic) probes.push_back({ narrow(w), &lex.get_logogram(lex.get_string(w)) });
         }
         probes.push_back({ "<invisible>", &lex.get_logogram(lex.get_string(u8"")) });
         probes.push_back({ "foo", &lex.get_logogram(lex.get_string(u8"foo")) });
         probes.push_back({ "__declspec", &lex.get_logogram(lex.get_string(u8"__declspec")) });
         // a dynamic logogram with the same spelling as a basic name cannot exist (reserved words are unified), but a
         // near miss can:
         probes.push_back({ narrow(names[0]) + "_", &lex.get_logogram(lex.get_string(std::u8string(names[0]) + u8"_")) });
         long long idx = 0;
         for (auto& [w, logo] : probes) {
            rep.count("transitions");
            rep.count("states");
            bool refused = false;
            try {
               (void) K::of(lex, Basic{ *logo });
            }
            catch (...) { refused = true; }
            if (not refused) fail("unknown-answered:" + w, 0, "asking for the set of non-basic name '" + w + "' was answered instead of refused", 10, idx, 0);
            ++idx;
         }
         rep.count("unknown_names_probed", static_cast<long long>(probes.size()));
      }
   };

   // Request histories: the answer to "the set of name w in family F" must not depend on what was asked before.
   // Alphabet: {specifiers, qualifiers} x {every reserved word, the invisible logogram, a dynamic word}.  Model: a basic
   // name of the family yields its single-element set (the value established cold, above), anything else is refused.
   void request_histories(bool deep)
   {
      ipr::impl::Lexicon lex;
      struct Req { int family; std::string word; const ipr::Logogram* logo; int basic; };
      std::vector<Req> alpha;
      std::vector<ipr::Specifiers> sval;
      std::vector<ipr::Qualifiers> qval;
      for (auto w : spec_names) sval.push_back(lex.specifiers(ipr::Basic_specifier{ lex.get_logogram(lex.get_string(w)) }));
      for (auto w : qual_names) qval.push_back(lex.qualifiers(ipr::Basic_qualifier{ lex.get_logogram(lex.get_string(w)) }));
      std::vector<std::u8string> words;
      for (auto w : reserved) words.push_back(w);
      words.push_back(u8""); words.push_back(u8"foo");
      for (int f = 0; f < 2; ++f)
         for (auto& w : words) {
            int basic = -1;
            if (f == 0) { for (int i = 0; i < 18; ++i) if (w == spec_names[i]) basic = i; }
            else { for (int i = 0; i < 3; ++i) if (w == qual_names[i]) basic = i; }
            alpha.push_back({ f, narrow(w.c_str()), &lex.get_logogram(lex.get_string(w)), basic });
         }
      auto ask = [&](const Req& r, const std::vector<int>& hist, std::size_t pos) {
         rep.count("transitions");
         bool refused = false, right = true;
         try {
            if (r.family == 0) { auto v = lex.specifiers(ipr::Basic_specifier{ *r.logo }); right = r.basic >= 0 and v == sval[std::size_t(r.basic)]; }
            else { auto v = lex.qualifiers(ipr::Basic_qualifier{ *r.logo }); right = r.basic >= 0 and v == qval[std::size_t(r.basic)]; }
         }
         catch (...) { refused = true; }
         const bool ok = r.basic >= 0 ? (not refused and right) : refused;
         if (ok) return;
         std::string text;
         for (std::size_t k = 0; k <= pos; ++k) text += std::string(k ? " ; " : "") + (alpha[std::size_t(hist[k])].family ? "qualifiers(" : "specifiers(") + alpha[std::size_t(hist[k])].word + ")";
         std::vector<long long> ops(hist.begin(), hist.begin() + long(pos) + 1);
         const std::string fam = r.family ? "qual" : "spec";
         rep.violation("C10:" + fam + ":history-dependent:" + (r.basic >= 0 ? (refused ? "basic-name-refused" : "basic-name-wrong-value") : "unknown-answered"), (long long) pos,
                       "after the requests [" + text + "] the last one was " + (refused ? "refused" : "answered") + (r.basic >= 0 ? " although it names a basic element" : " although it is not a basic name of that family"),
                       vf::JObj{}.str("pass", "C10").str("kind", "history").raw("ops", vf::jarr(ops)).done());
         if (verbose) std::printf("  VIOLATION history-dependent: %s\n", text.c_str());
      };
      const int N = int(alpha.size());
      long long job = 0;
      // all ordered pairs over the full alphabet
      for (int a = 0; a < N; ++a) {
         if (not opt.mine(job++)) continue;
         for (int b = 0; b < N; ++b) { std::vector<int> h{ a, b }; ask(alpha[std::size_t(a)], h, 0); ask(alpha[std::size_t(b)], h, 1); rep.count("traces"); rep.count("states", 2); }
      }
      // all ordered triples over a reduced alphabet: every basic name in both families + 4 (quick) / 12 (thorough) other words
      std::vector<int> red;
      int others = 0;
      for (int i = 0; i < N; ++i) {
         bool basic_somewhere = false;
         for (auto w : spec_names) basic_somewhere = basic_somewhere or alpha[std::size_t(i)].word == narrow(w);
         for (auto w : qual_names) basic_somewhere = basic_somewhere or alpha[std::size_t(i)].word == narrow(w);
         if (basic_somewhere) red.push_back(i);
         else if (i % 7 == 3 and others++ < (deep ? 12 : 4)) red.push_back(i);
      }
      for (int a : red) {
         if (not opt.mine(job++)) continue;
         for (int b : red) for (int c : red) { std::vector<int> h{ a, b, c }; ask(alpha[std::size_t(a)], h, 0); ask(alpha[std::size_t(b)], h, 1); ask(alpha[std::size_t(c)], h, 2); rep.count("traces"); rep.count("states", 3); }
         if (opt.expired()) { rep.cap("deadline during request histories"); break; }
      }
      if (opt.shard == 0) {
         rep.info("request_histories", vf::JObj{}.num("alphabet", N).num("pairs", (long long) N * N).num("reduced_alphabet", (long long) red.size()).num("triples", (long long) red.size() * red.size() * red.size()).done());
         rep.sample(vf::JObj{}.str("history", "qualifiers(const) ; specifiers(const)").str("checked", "the second request is refused exactly as it is when asked first").done());
      }
   }

   // The bitwise helpers are templates over every enumeration-typed set: they must act on the WHOLE representation (the
   // sets are std::uintptr_t wide), not only on the coordinates the library hands out today.
   template<class T>
   void full_width_laws(const char* tag)
   {
      using R = std::underlying_type_t<T>;
      constexpr int W = int(sizeof(R) * 8);
      auto bad = [&](const char* op, int i, int j) {
         rep.violation(std::string("C10:") + tag + ":full-width:" + op, i + j, std::string("operator ") + op + " on " + tag + " sets loses or invents bits beyond the low word (bits " + std::to_string(i) + " and " + std::to_string(j) + ")",
                       vf::JObj{}.str("pass", "C10").str("kind", "full-width").raw("ops", vf::jarr(std::vector<long long>{ i, j })).done());
      };
      for (int i = 0; i < W; ++i)
         for (int j = 0; j < W; ++j) {
            const R ra = R(1) << i, rb = (R(1) << j) | (R(1) << ((j + 7) % W));
            const T a{ ra }, b{ rb };
            rep.count("transitions", 7);
            if (R(a | b) != (ra | rb)) bad("|", i, j);
            if (R(a & b) != (ra & rb)) bad("&", i, j);
            if (R(a ^ b) != (ra ^ rb)) bad("^", i, j);
            if (ipr::implies(b, a) != ((rb & ra) == ra)) bad("implies", i, j);
            T t = a; t |= b; if (R(t) != (ra | rb)) bad("|=", i, j);
            T u = b; u &= a; if (R(u) != (ra & rb)) bad("&=", i, j);
            T w = a; w ^= b; if (R(w) != (ra ^ rb)) bad("^=", i, j);
         }
      rep.count("states", W * W);
      rep.count("traces");
   }

   // More than one Lexicon.  The sets are values and the basis is the same for every Lexicon, so what one Lexicon answers cannot
   // depend on what another one was asked, nor on another one being created or destroyed in between.  Histories over two slots A
   // and B (both alive at the start): ask A or B one of 12 questions (name lookups in both families incl. names of the other
   // family, decompositions of 4 specifier and 2 qualifier sets), destroy B, create B again.  Every answer is checked against what
   // the question alone determines.
   void several_lexicons(int depth)
   {
      struct Q { int kind; const char8_t* word; unsigned long long value; const char* text; };       // kind 0 specifiers(name) 1 qualifiers(name) 2 decompose(Specifiers) 3 decompose(Qualifiers)
      std::vector<ipr::Specifiers> sval;
      std::vector<ipr::Qualifiers> qval;
      {
         ipr::impl::Lexicon cold;
         for (auto w : spec_names) sval.push_back(cold.specifiers(ipr::Basic_specifier{ cold.get_logogram(cold.get_string(w)) }));
         for (auto w : qual_names) qval.push_back(cold.qualifiers(ipr::Basic_qualifier{ cold.get_logogram(cold.get_string(w)) }));
      }
      auto sbits = [&](std::initializer_list<int> is) { ipr::Specifiers v{ }; for (int i : is) v |= sval[std::size_t(i)]; return static_cast<unsigned long long>(std::underlying_type_t<ipr::Specifiers>(v)); };
      auto qbits = [&](std::initializer_list<int> is) { ipr::Qualifiers v{ }; for (int i : is) v |= qval[std::size_t(i)]; return static_cast<unsigned long long>(std::underlying_type_t<ipr::Qualifiers>(v)); };
      unsigned long long all18 = 0; for (auto v : sval) all18 |= static_cast<unsigned long long>(std::underlying_type_t<ipr::Specifiers>(v));
      const Q qs[] = {
         { 0, spec_names[0], 0, "specifiers(first basic name)" }, { 0, spec_names[7], 0, "specifiers(eighth basic name)" }, { 0, u8"const", 0, "specifiers(const)" },
         { 1, u8"const", 0, "qualifiers(const)" }, { 1, u8"restrict", 0, "qualifiers(restrict)" }, { 1, spec_names[0], 0, "qualifiers(a specifier name)" },
         { 2, nullptr, 0, "decompose(no specifier)" }, { 2, nullptr, sbits({ 0 }), "decompose(one specifier)" }, { 2, nullptr, sbits({ 1, 6, 9 }), "decompose(three specifiers)" }, { 2, nullptr, all18, "decompose(all specifiers)" },
         { 3, nullptr, qbits({ 0 }), "decompose(const)" }, { 3, nullptr, qbits({ 0, 1, 2 }), "decompose(const volatile restrict)" },
      };
      constexpr int NQ = int(sizeof qs / sizeof qs[0]);
      const int N = 2 * NQ + 2;                       // letters: 0..NQ-1 ask A, NQ..2NQ-1 ask B, 2NQ destroy B, 2NQ+1 create B
      auto letter = [&](int c) { return c < NQ ? std::string("A.") + qs[c].text : c < 2 * NQ ? std::string("B.") + qs[c - NQ].text : c == 2 * NQ ? std::string("destroy B") : std::string("create B"); };
      auto ask = [&](ipr::impl::Lexicon& lex, const Q& q) -> std::string {
         rep.count("transitions");
         if (q.kind <= 1) {
            int basic = -1;
            for (int i = 0; q.kind == 0 and i < 18; ++i) if (std::u8string_view(q.word) == spec_names[i]) basic = i;
            for (int i = 0; q.kind == 1 and i < 3; ++i) if (std::u8string_view(q.word) == qual_names[i]) basic = i;
            auto& logo = lex.get_logogram(lex.get_string(q.word));
            try {
               if (q.kind == 0) { auto v = lex.specifiers(ipr::Basic_specifier{ logo }); if (basic < 0) return "answered although it is not a basic specifier"; if (not (v == sval[std::size_t(basic)])) return "answered with another set"; }
               else { auto v = lex.qualifiers(ipr::Basic_qualifier{ logo }); if (basic < 0) return "answered although it is not a basic qualifier"; if (not (v == qval[std::size_t(basic)])) return "answered with another set"; }
            }
            catch (...) { if (basic >= 0) return "refused although it names a basic element"; }
            return "";
         }
         unsigned long long got = 0; std::size_t n = 0;
         try {
         if (q.kind == 2) { auto r = lex.decompose(ipr::Specifiers{ static_cast<std::underlying_type_t<ipr::Specifiers>>(q.value) }); n = r.size(); for (auto& b : r) got |= static_cast<unsigned long long>(std::underlying_type_t<ipr::Specifiers>(lex.specifiers(b))); }
         else { auto r = lex.decompose(ipr::Qualifiers{ static_cast<std::underlying_type_t<ipr::Qualifiers>>(q.value) }); n = r.size(); for (auto& b : r) got |= static_cast<unsigned long long>(std::underlying_type_t<ipr::Qualifiers>(lex.qualifiers(b))); }
         }
         catch (...) { return "throws (an element of the decomposition is refused as a basic name, or the decomposition itself fails)"; }
         if (got != q.value or n != std::size_t(__builtin_popcountll(q.value))) return "is not the exact decomposition (" + std::to_string(n) + " elements)";
         return "";
      };
      std::vector<int> h(std::size_t(depth), 0);
      long long job = 0;
      for (int d = 1; d <= depth; ++d) {
         std::vector<int> idx(std::size_t(d), 0);
         for (;;) {
            if (opt.mine(job++)) {
               auto a = std::make_unique<ipr::impl::Lexicon>();
               auto b = std::make_unique<ipr::impl::Lexicon>();
               bool admissible = true;
               for (int k = 0; k < d and admissible; ++k) {
                  const int c = idx[std::size_t(k)];
                  std::string wrong;
                  if (c < NQ) wrong = ask(*a, qs[c]);
                  else if (c < 2 * NQ) { if (not b) admissible = false; else wrong = ask(*b, qs[c - NQ]); }
                  else if (c == 2 * NQ) { if (not b) admissible = false; else b.reset(); }
                  else { if (b) admissible = false; else b = std::make_unique<ipr::impl::Lexicon>(); }
                  if (not wrong.empty()) {
                     std::string text;
                     for (int j = 0; j <= k; ++j) text += std::string(j ? " ; " : "") + letter(idx[std::size_t(j)]);
                     std::vector<long long> ops(idx.begin(), idx.begin() + k + 1);
                     rep.violation(std::string("C10:several-lexicons:") + (qs[c % NQ].kind == 0 ? "specifiers" : qs[c % NQ].kind == 1 ? "qualifiers" : "decompose"), k,
                                   "with two Lexicons A and B: [" + text + "]: the last request " + wrong, vf::JObj{}.str("pass", "C10").str("kind", "several-lexicons").raw("ops", vf::jarr(ops)).done());
                     break;
                  }
               }
               rep.count("states", d);
               rep.count("traces");
            }
            int k = d - 1;
            while (k >= 0 and ++idx[std::size_t(k)] == N) idx[std::size_t(k--)] = 0;
            if (k < 0) break;
         }
         if (opt.expired()) { rep.cap("deadline during several-lexicon histories"); break; }
      }
      if (opt.shard == 0) rep.info("several_lexicons", vf::JObj{}.num("letters", N).num("depth", depth).done());
   }

   void run(bool all_pairs)
   {
      if (opt.shard == 0) { full_width_laws<ipr::Specifiers>("spec"); full_width_laws<ipr::Qualifiers>("qual"); }
      request_histories(all_pairs);
      several_lexicons(all_pairs ? 4 : 3);
      ipr::impl::Lexicon lex;
      {
         Algebra<SpecKind> a{ lex };
         if (a.setup({ std::begin(spec_names), std::end(spec_names) })) {
            if (opt.shard == 0) {
               a.named("export", lex.export_specifier());
               a.named("static", lex.static_specifier());
               a.named("extern", lex.extern_specifier());
               a.named("mutable", lex.mutable_specifier());
               a.named("thread_local", lex.thread_local_specifier());
               a.named("register", lex.register_specifier());
               a.named("inline", lex.inline_specifier());
               a.named("constexpr", lex.constexpr_specifier());
               a.named("consteval", lex.consteval_specifier());
               a.named("virtual", lex.virtual_specifier());
               a.named("=0", lex.abstract_specifier());
               a.named("explicit", lex.explicit_specifier());
               a.named("friend", lex.friend_specifier());
               a.named("typedef", lex.typedef_specifier());
               a.named("public", lex.public_specifier());
               a.named("protected", lex.protected_specifier());
               a.named("private", lex.private_specifier());
               a.unknown_refused();
            }
            a.all_subsets();
            a.pairs(all_pairs);
         }
      }
      {
         Algebra<QualKind> q{ lex };
         if (q.setup({ std::begin(qual_names), std::end(qual_names) })) {
            if (opt.shard == 0) {
               q.named("const", lex.const_qualifier());
               q.named("volatile", lex.volatile_qualifier());
               q.named("restrict", lex.restrict_qualifier());
               q.unknown_refused();
               q.all_subsets();
               q.pairs(true);
            }
         }
      }
      // a second Lexicon gives the same coordinates (the basis is process-wide)
      if (opt.shard == 0) {
         ipr::impl::Lexicon other;
         if (other.static_specifier() != lex.static_specifier() or other.const_qualifier() != lex.const_qualifier())
            rep.violation("C10:lexicon-dependent", 0, "two Lexicons disagree on the coordinates of a basic name", "{}");
      }
   }
}

int main(int argc, char** argv)
{
   opt = vf::parse_options(argc, argv);
   vf::install_crash_handler(opt, "C10");
   if (not opt.replay.empty()) {
      verbose = true;
      auto text = vf::slurp(opt.replay);
      auto ops = vf::json_int_array(text, "ops");
      std::printf("replay C10: re-running the complete unary sweep and the quick pair set (witness ops=%s)\n",
                  vf::jarr(ops).c_str());
      opt.shards = 1;
      run(false);
      for (auto& [k, v] : rep.viols) std::printf("violated: %s  (%s)\n", k.c_str(), v.what.c_str());
      return rep.viols.empty() ? 0 : 1;
   }
   run(opt.thorough());
   if (opt.shard == 0)
      rep.info("subsets", vf::JObj{}.num("specifier_subsets", 1 << 18).num("qualifier_subsets", 8).done());
   rep.write(opt);
   return 0;
}
