// C17 — printed text depends only on graph structure and printer options.
// Programs of the printable fragment are generated from a typed catalogue (every expression form the printer has a
// production for x operand pool; every statement tree up to a depth bound inside a function body; every declaration
// kind x type shape x initializer; user-defined types with 0..3 members; multi-declaration scopes).  Each program is
// built under a set of construction HISTORIES that produce isomorphic graphs:
//   plain | descending-address arena | alternating arena | 1000 unrelated nodes first | independent sub-terms built in
//   reverse order | unrelated factory calls (incl. requests for the very names, types, literals and labels the program
//   uses) injected before construction step k, for EVERY k (one deviation; thorough: every pair of steps as well).
// Oracle: the bytes printed are identical across all histories of a program; a second fresh Printer reproduces them;
// the fingerprint of every node the program built is unchanged by printing; with print_locations on the text is the
// off-text with only F<file>:<line>[:<col>] tokens of located nodes inserted (every located node shows, nothing else),
// from every fresh printer, and with it off no such token occurs.
#include <algorithm>
#include <cstring>
#include <new>
#include <memory>
#include <sstream>

#include <ipr/io>

#include "zoo/zoo.hpp"
#include "envctl.hpp"

namespace zoo { std::string observe(Ctx&, const ipr::Node&); }

namespace {
   vf::Report rep;
   vf::Options opt;
   bool verbose = false;

   // ---------------------------------------------------------------------------------------------------------
   struct Env {
      int alloc = 0;                 // 0 malloc, 1 ascending, 2 descending, 3 alternating
      bool pre_noise = false;
      bool reverse = false;
      int locus = 0;                 // 0 every located node on a line of its own; 1 all on one line of one file, columns differ; 2 all at the same position
      std::vector<int> noise_at;     // construction steps before which noise is injected
      std::vector<int> print_at;     // construction steps before which the unit built so far is printed (and the text discarded)
      std::string text() const
      {
         std::string s = alloc == 0 ? "plain" : alloc == 1 ? "ascending-arena" : alloc == 2 ? "descending-arena" : "alternating-arena";
         if (pre_noise) s += "+1000-unrelated-nodes-first";
         if (reverse) s += "+subterms-built-in-reverse";
         if (locus == 1) s += "+all-located-nodes-on-one-line";
         if (locus == 2) s += "+all-located-nodes-at-one-position";
         for (int k : noise_at) s += "+noise-before-step-" + std::to_string(k);
         for (int k : print_at) s += "+unit-printed-before-step-" + std::to_string(k);
         return s;
      }
   };

   enum Family { F_EXPR, F_STMT, F_DECL, F_UDT, F_MULTI, NFAM };
   const char* family_name[] = { "expression", "statement-tree", "declaration", "user-defined-type", "multi-declaration" };
   struct Prog { int family; int a = 0, b = 0, c = 0, d = 0; };

   // ---- statement trees (same grammar as C18) ----
   enum Form { ExprStmt, Return, Break, Continue, Goto, DeclStmt, NLEAF,
               Block1 = NLEAF, Try1, If, While, Do, For, ForIn, Switch, Labeled, NUNARY_END,
               IfElse = NUNARY_END, Block2, Try2, NFORMS };
   const char* form_name[] = { "expr", "return", "break", "continue", "goto", "decl", "block1", "try1", "if", "while", "do", "for", "for-in", "switch", "labeled", "if-else", "block2", "try2" };
   struct Tree { int form; int a = -1, b = -1; };
   std::vector<Tree> trees;
   std::vector<int> depth_end;
   void make_tree_table(int full_depth)
   {
      trees.clear(); depth_end.clear();
      for (int f = 0; f < NLEAF; ++f) trees.push_back({ f });
      depth_end.push_back(int(trees.size()));
      for (int d = 2; d <= full_depth; ++d) {
         const int lo = d >= 3 ? depth_end[std::size_t(d - 3)] : 0, hi = depth_end[std::size_t(d - 2)];
         for (int f = NLEAF; f < NUNARY_END; ++f) for (int a = lo; a < hi; ++a) trees.push_back({ f, a });
         for (int f = NUNARY_END; f < NFORMS; ++f)
            for (int a = 0; a < hi; ++a) for (int b = 0; b < hi; ++b) if (a >= lo or b >= lo) trees.push_back({ f, a, b });
         depth_end.push_back(int(trees.size()));
      }
   }
   std::string tree_text(int t)
   {
      const Tree& n = trees[std::size_t(t)];
      std::string s = form_name[n.form];
      if (n.a >= 0) s += "(" + tree_text(n.a) + (n.b >= 0 ? "," + tree_text(n.b) : "") + ")";
      return s;
   }

   // ---- expression catalogue ----
   enum Arity { Un, Bin, Tern, Typed, Special };
   struct ExprForm { const char* name; Arity arity; };
   const ExprForm expr_forms[] = {
      { "address", Un }, { "deref", Un }, { "complement", Un }, { "not", Un }, { "unary_minus", Un }, { "unary_plus", Un }, { "pre_increment", Un }, { "pre_decrement", Un },
      { "post_increment", Un }, { "post_decrement", Un }, { "sizeof", Un }, { "typeid", Un }, { "throw", Un }, { "delete", Un }, { "array_delete", Un }, { "noexcept", Un },
      { "args_cardinality", Un }, { "enclosure-paren", Un }, { "enclosure-brace", Un }, { "enclosure-nothing", Un },
      { "plus", Bin }, { "minus", Bin }, { "mul", Bin }, { "div", Bin }, { "modulo", Bin }, { "lshift", Bin }, { "rshift", Bin }, { "less", Bin }, { "less_equal", Bin }, { "greater", Bin },
      { "greater_equal", Bin }, { "equal", Bin }, { "not_equal", Bin }, { "bitand", Bin }, { "bitxor", Bin }, { "bitor", Bin }, { "and", Bin }, { "or", Bin }, { "assign", Bin },
      { "plus_assign", Bin }, { "minus_assign", Bin }, { "mul_assign", Bin }, { "div_assign", Bin }, { "modulo_assign", Bin }, { "lshift_assign", Bin }, { "rshift_assign", Bin },
      { "bitand_assign", Bin }, { "bitor_assign", Bin }, { "bitxor_assign", Bin }, { "comma", Bin }, { "array_ref", Bin }, { "dot", Bin }, { "arrow", Bin }, { "dot_star", Bin },
      { "arrow_star", Bin }, { "scope_ref", Bin }, { "member_init", Bin },
      { "conditional", Tern },
      { "cast", Typed }, { "static_cast", Typed }, { "const_cast", Typed }, { "reinterpret_cast", Typed }, { "dynamic_cast", Typed },
      { "construction", Special }, { "new", Special }, { "new-placement", Special }, { "call0", Special }, { "call2", Special }, { "template_id", Special }, { "label", Special },
      { "this", Special }, { "literal-escapes", Special }, { "id-of-decl", Special }, { "expr_list", Special }, { "mapping", Special },
   };
   constexpr int NEXPR = int(sizeof expr_forms / sizeof expr_forms[0]);

   const char* decl_kind_name[] = { "var", "field", "bitfield", "alias", "typedecl", "fundecl", "primary-template", "var+specifiers" };
   constexpr int NDECLKIND = 8;
   constexpr int NTYPESHAPE = 12;
   const char* udt_kind_name[] = { "class", "union", "enum-scoped", "enum-legacy", "namespace" };

   std::string prog_text(const Prog& p)
   {
      switch (p.family) {
      case F_EXPR: return std::string("var r : int (") + expr_forms[p.a].name + " over operands " + std::to_string(p.b) + "," + std::to_string(p.c) + "," + std::to_string(p.d) + ")";
      case F_STMT: return "function f with body { " + tree_text(p.a) + " }";
      case F_DECL: return std::string(decl_kind_name[p.a]) + " of type shape " + std::to_string(p.b) + " with initializer " + std::to_string(p.c);
      case F_UDT: return std::string(udt_kind_name[p.a]) + " with " + std::to_string(p.b) + " members of flavour " + std::to_string(p.c);
      case F_MULTI: return "scope with declarations " + std::to_string(p.a) + "," + std::to_string(p.b) + "," + std::to_string(p.c);
      }
      return "?";
   }

   // ---------------------------------------------------------------------------------------------------------
   struct Builder {
      ipr::impl::Lexicon& lex;
      ipr::impl::Translation_unit& unit;
      ipr::impl::Translation_unit& other_unit;       // noise declares here
      const Env& env;
      ipr::impl::Region& G;
      int steps = 0;
      int noise_runs = 0;
      std::vector<const ipr::Node*> made;
      std::vector<std::string> expected_tokens;      // location tokens of located nodes (order irrelevant)
      std::vector<std::unique_ptr<char[]>> pads;

      Builder(ipr::impl::Lexicon& l, ipr::impl::Translation_unit& u, ipr::impl::Translation_unit& o, const Env& e) : lex{ l }, unit{ u }, other_unit{ o }, env{ e }, G{ *u.global_region() } { }

      void noise(int k)
      {
         ++noise_runs;
         static const char8_t* const words[] = { u8"x", u8"y", u8"r", u8"s", u8"f", u8"a", u8"retry", u8"done", u8"C", u8"D", u8"m0", u8"m1", u8"m2", u8"T", u8"v0", u8"E", u8"N", u8"g", u8"this", u8"int" };
         const int nw = int(sizeof words / sizeof words[0]);
         for (int i = 0; i < 7; ++i) (void) lex.get_identifier(words[(k * 3 + i * 5) % nw]);
         (void) lex.get_label(lex.get_identifier(words[6 + k % 2]));
         (void) lex.get_label(lex.get_identifier(words[7 - k % 2]));
         (void) lex.get_pointer(lex.int_type());
         (void) lex.get_reference(lex.int_type());
         (void) lex.get_qualified(lex.const_qualifier(), lex.int_type());
         (void) lex.get_array(lex.int_type(), lex.get_literal(lex.int_type(), u8"3"));
         (void) lex.get_literal(lex.int_type(), u8"1");
         (void) lex.get_literal(lex.int_type(), u8"2");
         ipr::impl::Warehouse<ipr::Type> w;
         w.push_back(lex.int_type());
         if (k % 2) w.push_back(lex.char_type());
         (void) lex.get_function(lex.get_product(w), lex.void_type());
         (void) lex.get_function(lex.get_product(w), lex.int_type(), lex.true_value());
         (void) lex.make_plus(*lex.make_id_expr(lex.get_identifier(u8"x")), lex.get_literal(lex.int_type(), u8"1"));
         (void) lex.make_block(G);
         auto* cls = lex.make_class(*other_unit.global_region());
         cls->id = &lex.get_identifier(u8"C");
         cls->declare_field(lex.get_identifier(u8"m0"), lex.int_type());
         other_unit.global_region()->declare_var(lex.get_identifier(words[k % nw]), lex.int_type());
         (void) lex.get_this(lex.get_pointer(*cls));
         (void) lex.get_symbol(lex.get_identifier(u8"retry"), lex.int_type());
         pads.push_back(std::make_unique<char[]>(std::size_t(24 + (k % 5) * 16)));
      }
      int early_prints = 0;
      void step()
      {
         if (std::find(env.noise_at.begin(), env.noise_at.end(), steps) != env.noise_at.end()) noise(steps);
         if (std::find(env.print_at.begin(), env.print_at.end(), steps) != env.print_at.end()) {
            // looking at a program under construction must not change what is printed once it is complete
            ++early_prints;
            for (int loc = 0; loc < 2; ++loc) {
               std::ostringstream scratch;
               ipr::Printer pp{ lex, scratch };
               pp.print_locations = loc != 0;
               try { pp << unit; } catch (const std::logic_error&) { }
            }
            // ... nor must looking at the pieces that are not yet attached to the unit (a class still receiving its bases
            // and members, a mapping still receiving its parameters, a block still receiving its statements and handlers)
            for (std::size_t i = 0; i < made.size(); ++i) {
               auto* e = dynamic_cast<const ipr::Expr*>(made[i]);
               if (e == nullptr) continue;
               std::ostringstream scratch;
               ipr::Printer pp{ lex, scratch };
               try { pp << ipr::xpr_expr(*e); } catch (const std::logic_error&) { }
            }
         }
         ++steps;
      }
      template<class T> T* reg(T* n) { made.push_back(static_cast<const ipr::Node*>(n)); return n; }

      const ipr::Identifier& id(const char8_t* w) { step(); return lex.get_identifier(w); }
      const ipr::Expr& lit(const char8_t* w = u8"1") { step(); return lex.get_literal(lex.int_type(), w); }
      const ipr::Expr& idx(const char8_t* w = u8"x") { auto& n = id(w); step(); return *reg(lex.make_id_expr(n)); }
      // operand pool: 0 literal, 1 id-expression, 2 compound
      const ipr::Expr& operand(int k, const char8_t* nm = u8"x")
      {
         if (k == 0) return lit();
         if (k == 1) return idx(nm);
         if (env.reverse) { auto& b = lit(u8"2"); auto& a = idx(nm); step(); return *reg(lex.make_mul(a, b)); }
         auto& a = idx(nm); auto& b = lit(u8"2"); step(); return *reg(lex.make_mul(a, b));
      }
      template<class F> decltype(auto) pair(F f, int i, int j) { if (env.reverse) { auto& b = operand(j, u8"y"); auto& a = operand(i); step(); return f(a, b); } auto& a = operand(i); auto& b = operand(j, u8"y"); step(); return f(a, b); }

      // ---- located nodes: file/line/column a function of the node's position in the program ----
      template<class S> void locate(S* s, int path)
      {
         unsigned file = 1 + unsigned(path) % 3, line = 10 + unsigned(path), col = path % 2 ? 0 : 5 + unsigned(path) % 7;
         if (env.locus == 1) { file = 2; line = 7; col = 1 + unsigned(path); }
         if (env.locus == 2) { file = 2; line = 7; col = 3; }
         s->src_locus = ipr::Source_location{ ipr::Line_number{ line }, ipr::Column_number{ col }, ipr::File_index{ file } };
         std::string tok = "F" + std::to_string(file) + ":" + std::to_string(line);
         if (col) tok += ":" + std::to_string(col);
         expected_tokens.push_back(tok + " ");
      }

      // ---- types ----
      const ipr::Type& type_shape(int k)
      {
         step();
         switch (k) {
         case 0: return lex.int_type();
         case 1: return lex.get_pointer(lex.int_type());
         case 2: return lex.get_reference(lex.char_type());
         case 3: return lex.get_rvalue_reference(lex.int_type());
         case 4: return lex.get_qualified(lex.const_qualifier(), lex.int_type());
         case 5: { auto& q = lex.get_qualified(lex.const_qualifier() | lex.volatile_qualifier(), lex.char_type()); step(); return lex.get_pointer(q); }
         case 6: { auto& b = lit(u8"3"); step(); return lex.get_array(lex.int_type(), b); }
         case 7: { ipr::impl::Warehouse<ipr::Type> w; w.push_back(lex.int_type()); auto& p = lex.get_product(w); step(); return lex.get_function(p, lex.void_type()); }
         case 8: { ipr::impl::Warehouse<ipr::Type> w; w.push_back(lex.int_type()); w.push_back(lex.char_type()); auto& p = lex.get_product(w); step(); return lex.get_function(p, lex.int_type(), lex.true_value()); }
         case 9: { auto& p = lex.get_pointer(lex.get_pointer(lex.char_type())); step(); return lex.get_qualified(lex.const_qualifier(), p); }
         case 10: { auto& e = idx(u8"T"); step(); return lex.get_as_type(e); }
         case 11: { auto& inner = lex.get_reference(lex.get_qualified(lex.volatile_qualifier(), lex.double_type())); step(); return inner; }
         }
         return lex.int_type();
      }

      // ---- expressions ----
      const ipr::Expr& expression(int form, int i, int j, int k)
      {
         const std::string n = expr_forms[form].name;
#define UNARY(NAME, FN) if (n == NAME) { auto& a = operand(i); step(); return *reg(lex.FN(a)); }
#define BINARY(NAME, FN) if (n == NAME) return *reg(pair([&](const ipr::Expr& a, const ipr::Expr& b) { return lex.FN(a, b); }, i, j));
         UNARY("address", make_address) UNARY("deref", make_deref) UNARY("complement", make_complement) UNARY("not", make_not) UNARY("unary_minus", make_unary_minus)
         UNARY("unary_plus", make_unary_plus) UNARY("pre_increment", make_pre_increment) UNARY("pre_decrement", make_pre_decrement) UNARY("post_increment", make_post_increment)
         UNARY("post_decrement", make_post_decrement) UNARY("sizeof", make_sizeof) UNARY("typeid", make_typeid) UNARY("throw", make_throw) UNARY("delete", make_delete)
         UNARY("array_delete", make_array_delete) UNARY("noexcept", make_noexcept) UNARY("args_cardinality", make_args_cardinality)
         if (n == "enclosure-paren") { auto& a = operand(i); step(); return *reg(lex.make_enclosure(ipr::Delimiter::Paren, a)); }
         if (n == "enclosure-brace") { auto& a = operand(i); step(); return *reg(lex.make_enclosure(ipr::Delimiter::Brace, a)); }
         if (n == "enclosure-nothing") { auto& a = operand(i); step(); return *reg(lex.make_enclosure(ipr::Delimiter::Nothing, a)); }
         BINARY("plus", make_plus) BINARY("minus", make_minus) BINARY("mul", make_mul) BINARY("div", make_div) BINARY("modulo", make_modulo) BINARY("lshift", make_lshift)
         BINARY("rshift", make_rshift) BINARY("less", make_less) BINARY("less_equal", make_less_equal) BINARY("greater", make_greater) BINARY("greater_equal", make_greater_equal)
         BINARY("equal", make_equal) BINARY("not_equal", make_not_equal) BINARY("bitand", make_bitand) BINARY("bitxor", make_bitxor) BINARY("bitor", make_bitor) BINARY("and", make_and)
         BINARY("or", make_or) BINARY("assign", make_assign) BINARY("plus_assign", make_plus_assign) BINARY("minus_assign", make_minus_assign) BINARY("mul_assign", make_mul_assign)
         BINARY("div_assign", make_div_assign) BINARY("modulo_assign", make_modulo_assign) BINARY("lshift_assign", make_lshift_assign) BINARY("rshift_assign", make_rshift_assign)
         BINARY("bitand_assign", make_bitand_assign) BINARY("bitor_assign", make_bitor_assign) BINARY("bitxor_assign", make_bitxor_assign) BINARY("comma", make_comma)
         BINARY("array_ref", make_array_ref) BINARY("dot", make_dot) BINARY("arrow", make_arrow) BINARY("dot_star", make_dot_star) BINARY("arrow_star", make_arrow_star)
         BINARY("scope_ref", make_scope_ref) BINARY("member_init", make_member_init)
#undef UNARY
#undef BINARY
         if (n == "conditional") {
            if (env.reverse) { auto& c = operand(k, u8"s"); auto& b = operand(j, u8"y"); auto& a = operand(i); step(); return *reg(lex.make_conditional(a, b, c)); }
            auto& a = operand(i); auto& b = operand(j, u8"y"); auto& c = operand(k, u8"s"); step(); return *reg(lex.make_conditional(a, b, c));
         }
         if (expr_forms[form].arity == Typed) {
            const ipr::Type* t; const ipr::Expr* e;
            if (env.reverse) { e = &operand(i); t = &type_shape(j + 1); } else { t = &type_shape(j + 1); e = &operand(i); }
            step();
            if (n == "cast") return *reg(lex.make_cast(*t, *e));
            if (n == "static_cast") return *reg(lex.make_static_cast(*t, *e));
            if (n == "const_cast") return *reg(lex.make_const_cast(*t, *e));
            if (n == "reinterpret_cast") return *reg(lex.make_reinterpret_cast(*t, *e));
            return *reg(lex.make_dynamic_cast(*t, *e));
         }
         auto list = [&](int len) -> ipr::impl::Expr_list& {
            std::vector<const ipr::Expr*> xs;
            if (env.reverse) { for (int q = len - 1; q >= 0; --q) xs.insert(xs.begin(), &operand((i + q) % 3, q ? u8"y" : u8"x")); }
            else for (int q = 0; q < len; ++q) xs.push_back(&operand((i + q) % 3, q ? u8"y" : u8"x"));
            step();
            auto* l = reg(lex.make_expr_list());
            for (auto x : xs) l->push_back(x);
            return *l;
         };
         if (n == "construction" or n == "new" or n == "new-placement") {
            auto& l = list(1 + j % 2);
            step();
            auto* enc = reg(lex.make_enclosure(j % 2 ? ipr::Delimiter::Brace : ipr::Delimiter::Paren, l));
            auto& t = type_shape(k);
            step();
            auto* c = reg(lex.make_construction(t, *enc));
            if (n == "construction") return *c;
            if (n == "new") { step(); return *reg(lex.make_new({ }, *c)); }
            auto& pl = list(1);
            step();
            return *reg(lex.make_new({ pl }, *c));
         }
         if (n == "call0") { auto& f = idx(u8"g"); auto& l = list(0); step(); return *reg(lex.make_call(f, l)); }
         if (n == "call2") { if (env.reverse) { auto& l = list(2); auto& f = idx(u8"g"); step(); return *reg(lex.make_call(f, l)); } auto& f = idx(u8"g"); auto& l = list(2); step(); return *reg(lex.make_call(f, l)); }
         if (n == "template_id") { auto& f = idx(u8"T"); auto& l = list(1 + j % 2); step(); auto& tid = lex.get_template_id(f, l); step(); return *reg(lex.make_id_expr(tid)); }
         if (n == "label") { auto& a = id(i % 2 ? u8"retry" : u8"done"); step(); return lex.get_label(a); }
         if (n == "this") { auto& t = type_shape(1); step(); return lex.get_this(t); }
         if (n == "literal-escapes") { step(); const char8_t* sp[] = { u8"a\nb", u8"tab\there", u8"back\\slash", u8"q\"uote", u8"bell\a", u8"\x01\x02z", u8"plain", u8"nul\0x", u8"" }; return lex.get_literal(lex.char_type(), sp[(i * 3 + j) % 9]); }
         if (n == "id-of-decl") { auto& nm = id(u8"y"); step(); auto* v = reg(G.make_subregion()->declare_var(nm, lex.int_type())); step(); return *reg(lex.make_id_expr(*v)); }
         if (n == "expr_list") return list(i + 1);
         if (n == "mapping") {
            ipr::impl::Warehouse<ipr::Type> w; w.push_back(lex.int_type());
            step();
            auto& ft = lex.get_function(lex.get_product(w), lex.int_type());
            step();
            auto* m = reg(lex.make_mapping(G, ipr::Mapping_level{ 1 }));
            m->param(id(u8"a"), lex.int_type());
            m->typing = &ft;
            m->body = &operand(j);
            return *m;
         }
         return lit();
      }

      // ---- statements ----
      const ipr::Stmt& statement(int t, int path)
      {
         const Tree& n = trees[std::size_t(t)];
         const int pa = path * 3 + 1, pb = path * 3 + 2;
         auto body2 = [&](const ipr::Stmt*& a, const ipr::Stmt*& b) { if (env.reverse) { b = &statement(n.b, pb); a = &statement(n.a, pa); } else { a = &statement(n.a, pa); b = &statement(n.b, pb); } };
         switch (n.form) {
         case ExprStmt: { auto& e = pair([&](const ipr::Expr& a, const ipr::Expr& b) -> const ipr::Expr& { return *reg(lex.make_plus(a, b)); }, 1, 0); step(); auto* s = reg(lex.make_expr_stmt(e)); locate(s, path); return *s; }
         case Return: { auto& e = operand(path % 3); step(); auto* s = reg(lex.make_return(e)); locate(s, path); return *s; }
         case Break: { step(); auto* s = reg(lex.make_break()); locate(s, path); return *s; }
         case Continue: { step(); auto* s = reg(lex.make_continue()); locate(s, path); return *s; }
         case Goto: { auto& l = lex.get_label(id(path % 2 ? u8"retry" : u8"done")); step(); auto* s = reg(lex.make_goto(l)); locate(s, path); return *s; }
         case DeclStmt: { auto& nm = id(path % 2 ? u8"v0" : u8"local-08"); step(); auto* v = reg(G.make_subregion()->declare_var(nm, type_shape(path % 5))); locate(v, path); v->init = &operand(path % 2); return *v; }
         case Block1: case Block2: case Try1: case Try2: {
            step();
            auto* b = reg(lex.make_block(G));
            locate(b, path);
            const ipr::Stmt* x = nullptr; const ipr::Stmt* y = nullptr;
            if (n.form == Block2 or n.form == Try2) body2(x, y); else x = &statement(n.a, pa);
            b->add_stmt(*x);
            if (n.form == Block2) b->add_stmt(*y);
            if (n.form == Try1 or n.form == Try2) {
               step();
               auto* h = b->new_handler(id(u8"e0"), lex.int_type());
               if (n.form == Try2) h->body().add_stmt(*y); else { step(); h->body().add_stmt(*reg(lex.make_break())); }
               if (n.form == Try2) { step(); auto* h2 = b->new_handler(id(u8"e1"), lex.ellipsis_type()); step(); h2->body().add_stmt(*reg(lex.make_continue())); }
            }
            return *b;
         }
         case If: { const ipr::Expr* c; const ipr::Stmt* s; if (env.reverse) { s = &statement(n.a, pa); c = &operand(1); } else { c = &operand(1); s = &statement(n.a, pa); } step(); auto* r = reg(lex.make_if(*c, *s)); locate(r, path); return *r; }
         case IfElse: { auto& c = operand(2); const ipr::Stmt* a; const ipr::Stmt* b; body2(a, b); step(); auto* r = reg(lex.make_if(c, *a, *b)); locate(r, path); return *r; }
         case While: { step(); auto* s = reg(lex.make_while()); locate(s, path); if (env.reverse) { s->stmt = &statement(n.a, pa); s->control = &operand(1); } else { s->control = &operand(1); s->stmt = &statement(n.a, pa); } return *s; }
         case Do: { step(); auto* s = reg(lex.make_do()); locate(s, path); s->stmt = &statement(n.a, pa); s->control = &operand(2); return *s; }
         case For: { step(); auto* s = reg(lex.make_for()); locate(s, path); if (env.reverse) { s->stmt = &statement(n.a, pa); s->inc = &operand(1); s->cond = &operand(2); s->init = &operand(0); } else { s->init = &operand(0); s->cond = &operand(2); s->inc = &operand(1); s->stmt = &statement(n.a, pa); } return *s; }
         case ForIn: { step(); auto* s = reg(lex.make_for_in()); locate(s, path); auto& nm = id(u8"it"); step(); s->var = reg(G.make_subregion()->declare_var(nm, lex.int_type())); s->seq = &operand(1, u8"y"); s->stmt = &statement(n.a, pa); return *s; }
         case Switch: { step(); auto* s = reg(lex.make_switch()); locate(s, path); s->control = &operand(1); s->stmt = &statement(n.a, pa); return *s; }
         case Labeled: {
            const ipr::Expr* l; const ipr::Stmt* s;
            if (env.reverse) { s = &statement(n.a, pa); l = &lex.get_label(id(path % 2 ? u8"done" : u8"retry")); } else { l = &lex.get_label(id(path % 2 ? u8"done" : u8"retry")); s = &statement(n.a, pa); }
            step();
            auto* r = reg(lex.make_labeled_stmt(*l, *s));
            locate(r, path);
            return *r;
         }
         }
         step();
         return *reg(lex.make_break());
      }

      // ---- declarations ----
      void function_with_body(const char8_t* name, const ipr::Stmt& body_stmt, int path)
      {
         ipr::impl::Warehouse<ipr::Type> w; w.push_back(lex.int_type());
         step();
         auto& ft = lex.get_function(lex.get_product(w), lex.int_type());
         auto& nm = id(name);
         step();
         auto* f = reg(G.declare_fun(nm, ft));
         locate(f, path);
         step();
         auto* m = reg(lex.make_mapping(G, ipr::Mapping_level{ 0 }));
         m->param(id(u8"a"), lex.int_type());
         m->typing = &ft;
         step();
         auto* blk = reg(lex.make_block(m->inputs.region()));
         blk->add_stmt(body_stmt);
         m->body = blk;
         f->data.emplace<1>(m);
      }

      void declaration(int kind, int shape, int init, const char8_t* name, int path)
      {
         const ipr::Expr* in = init == 0 ? nullptr : init == 1 ? &lit(u8"7") : &operand(2);
         switch (kind) {
         case 0: case 7: { auto& t = type_shape(shape); auto& nm = id(name); step(); auto* v = reg(G.declare_var(nm, t)); locate(v, path); if (in) v->init = in; if (kind == 7) v->decl_data.spec = lex.static_specifier() | lex.constexpr_specifier() | lex.inline_specifier(); break; }
         case 1: { auto& t = type_shape(shape); auto& nm = id(name); step(); auto* v = reg(G.declare_field(nm, t)); locate(v, path); if (in) v->init = in; break; }
         case 2: { auto& t = type_shape(shape % 5); auto& nm = id(name); step(); auto* v = reg(G.declare_bitfield(nm, t)); locate(v, path); v->length = &lit(u8"3"); if (in) v->init = in; break; }
         case 3: { auto& t = type_shape(shape); auto& nm = id(name); step(); auto* v = reg(G.declare_alias(nm, t)); locate(v, path); break; }
         case 4: { auto& nm = id(name); step(); auto* c = reg(lex.make_class(G)); c->id = &nm; auto& ft = type_shape(shape); step(); c->declare_field(id(u8"m0"), ft); step(); auto* v = reg(G.declare_type(nm, lex.class_type())); locate(v, path); if (init) v->init = c; break; }
         case 5: { step(); auto* s = reg(lex.make_return(in ? *in : lit(u8"0"))); function_with_body(name, *s, path); break; }
         case 6: {
            ipr::impl::Warehouse<ipr::Type> w; w.push_back(lex.typename_type());
            step();
            auto& fa = lex.get_forall(lex.get_product(w), lex.class_type());
            auto& nm = id(name);
            step();
            auto* t = reg(G.declare_primary_template(nm, fa));
            locate(t, path);
            step();
            auto* m = reg(lex.make_mapping(G, ipr::Mapping_level{ 0 }));
            m->param(id(u8"T"), lex.typename_type());
            m->typing = &fa;
            m->body = &type_shape(shape);
            t->init = m;
            break;
         }
         }
      }

      void udt(int kind, int members, int flavour, int path)
      {
         auto& nm = id(kind == 4 ? u8"N" : kind >= 2 ? u8"E" : u8"C");
         step();
         if (kind == 0) {
            auto* c = reg(lex.make_class(G)); c->id = &nm;
            if (flavour % 2) { step(); auto* base = reg(lex.make_class(G)); base->id = &id(u8"D"); c->declare_base(*base); c->declare_base(lex.get_as_type(idx(u8"T"))); }
            for (int i = 0; i < members; ++i) {
               static const char8_t* const mn[] = { u8"m0", u8"m1", u8"m2" };
               auto& mnm = id(mn[i]);
               step();
               if ((i + flavour) % 3 == 0) c->declare_field(mnm, type_shape(i + flavour));
               else if ((i + flavour) % 3 == 1) { auto* v = c->declare_var(mnm, type_shape(i)); v->init = &lit(); }
               else { auto* bf = c->declare_bitfield(mnm, lex.int_type()); bf->length = &lit(u8"4"); }
            }
            step(); auto* d = reg(G.declare_type(nm, lex.class_type())); locate(d, path); d->init = c;
         }
         else if (kind == 1) {
            auto* u = reg(lex.make_union(G)); u->id = &nm;
            for (int i = 0; i < members; ++i) { static const char8_t* const mn[] = { u8"m0", u8"m1", u8"m2" }; auto& mnm = id(mn[i]); step(); u->declare_field(mnm, type_shape((i + flavour) % 6)); }
            step(); auto* d = reg(G.declare_type(nm, lex.union_type())); locate(d, path); d->init = u;
         }
         else if (kind == 2 or kind == 3) {
            auto* e = reg(lex.make_enum(G, kind == 2 ? ipr::Enum::Kind::Scoped : ipr::Enum::Kind::Legacy)); e->id = &nm;
            for (int i = 0; i < members; ++i) { static const char8_t* const mn[] = { u8"m0", u8"m1", u8"m2" }; auto& mnm = id(mn[i]); step(); auto* en = e->add_member(mnm); if ((i + flavour) % 2) en->init = &lit(u8"2"); }
            step(); auto* d = reg(G.declare_type(nm, lex.enum_type())); locate(d, path); d->init = e;
         }
         else {
            auto* ns = reg(lex.make_namespace(G)); ns->id = &nm;
            for (int i = 0; i < members; ++i) { static const char8_t* const mn[] = { u8"m0", u8"m1", u8"m2" }; auto& mnm = id(mn[i]); step(); auto* v = ns->declare_var(mnm, type_shape((i + flavour) % 7)); if (flavour % 2) v->init = &operand(i % 3); }
            step(); auto* d = reg(G.declare_type(nm, lex.namespace_type())); locate(d, path); d->init = ns;
         }
      }

      void small_decl(int k, int path)
      {
         static const char8_t* const nm[] = { u8"r", u8"s", u8"f", u8"g", u8"x", u8"y" };
         switch (k) {
         case 0: declaration(0, 0, 1, nm[0], path); break;
         case 1: declaration(0, 5, 2, nm[1], path); break;
         case 2: declaration(5, 0, 1, nm[2], path); break;
         case 3: udt(0, 2, 1, path); break;
         case 4: declaration(0, 0, 0, nm[4], path); break;       // redeclarable plain variable x
         case 5: declaration(3, 1, 0, nm[5], path); break;
         }
      }

      void build(const Prog& p)
      {
         switch (p.family) {
         case F_EXPR: {
            auto& e = expression(p.a, p.b, p.c, p.d);
            auto& nm = id(u8"r");
            step();
            auto* v = reg(G.declare_var(nm, lex.int_type()));
            locate(v, 1);
            v->init = &e;
            declaration(0, 0, 1, u8"sentinel", 2);
            break;
         }
         case F_STMT: { auto& s = statement(p.a, 1); function_with_body(u8"f", s, 0); break; }
         case F_DECL: declaration(p.a, p.b, p.c, p.c == 2 ? u8"a-name-of-24-characters!" : u8"r", 1); declaration(0, 0, 1, u8"sentinel", 2); break;
         case F_UDT: udt(p.a, p.b, p.c, 1); declaration(0, 0, 0, u8"s", 2); break;
         case F_MULTI: if (env.reverse) { /* declaration order is program structure: never reversed */ } small_decl(p.a, 1); small_decl(p.b, 2); small_decl(p.c, 3); break;
         }
      }
   };

   // ---------------------------------------------------------------------------------------------------------
   struct Result {
      std::string outcome;          // completed | logic_error | other
      std::string off, off2, on, on2;
      int steps = 0, noise_runs = 0;
      bool graph_kept = true;
      std::vector<std::string> tokens;
      std::string token_problem;
   };

   std::string print_unit(const ipr::Lexicon& lex, const ipr::Translation_unit& unit, bool locations, std::string& outcome)
   {
      std::ostringstream os;
      ipr::Printer pp{ lex, os };
      pp.print_locations = locations;
      try { pp << unit; outcome = "completed"; }
      catch (const std::logic_error&) { outcome = "logic_error"; }
      catch (...) { outcome = "other-exception"; }
      return os.str();
   }

   bool is_digit(char ch) { return ch >= '0' and ch <= '9'; }
   // split `text` into (text without location tokens, tokens found)
   void strip_tokens(const std::string& text, std::string& stripped, std::vector<std::string>& found)
   {
      for (std::size_t i = 0; i < text.size();) {
         if (text[i] == 'F' and i + 1 < text.size() and is_digit(text[i + 1]) and (i == 0 or not(std::isalnum((unsigned char) text[i - 1]) or text[i - 1] == '_'))) {
            std::size_t j = i + 1;
            while (j < text.size() and is_digit(text[j])) ++j;
            if (j < text.size() and text[j] == ':' and j + 1 < text.size() and is_digit(text[j + 1])) {
               ++j;
               while (j < text.size() and is_digit(text[j])) ++j;
               if (j + 1 < text.size() and text[j] == ':' and is_digit(text[j + 1])) { ++j; while (j < text.size() and is_digit(text[j])) ++j; }
               if (j < text.size() and text[j] == ' ') { found.push_back(text.substr(i, j + 1 - i)); i = j + 1; continue; }
            }
         }
         stripped += text[i++];
      }
   }

   Result run(const Prog& p, const Env& env)
   {
      Result r;
      vf::env::set_alloc(vf::env::Alloc(env.alloc));
      struct Reset { ~Reset() { vf::env::set_alloc(vf::env::Alloc::Malloc); vf::env::arena_reset(); } } reset;
      std::string off, off2, on, on2, outcome, o2, o3, o4;
      bool kept = true;
      std::vector<std::string> tokens;
      int steps = 0, noise_runs = 0;
      {
         ipr::impl::Lexicon lex;
         ipr::impl::Translation_unit other{ lex };
         if (env.pre_noise) {
            for (int i = 0; i < 250; ++i) {
               auto& idn = lex.get_identifier(std::u8string(u8"zz") + char8_t('a' + i % 26) + char8_t('a' + i / 26 % 26));
               (void) lex.get_pointer(lex.get_as_type(*lex.make_id_expr(idn)));
               (void) lex.make_minus(*lex.make_literal(lex.int_type(), idn.string()), *lex.make_id_expr(idn));
               other.global_region()->declare_var(idn, lex.int_type());
            }
            // the program's own names, labels and literals, interned in an unusual order beforehand
            for (auto w : { u8"done", u8"retry", u8"y", u8"x", u8"s", u8"r", u8"v0", u8"m2", u8"m1", u8"m0", u8"g", u8"f", u8"T", u8"E", u8"D", u8"C", u8"a" }) (void) lex.get_identifier(w);
            (void) lex.get_label(lex.get_identifier(u8"done")); (void) lex.get_label(lex.get_identifier(u8"retry"));
            (void) lex.get_literal(lex.int_type(), u8"2"); (void) lex.get_literal(lex.int_type(), u8"1");
         }
         ipr::impl::Translation_unit unit{ lex };
         Builder b{ lex, unit, other, env };
         b.build(p);
         steps = b.steps; noise_runs = b.noise_runs;
         // fingerprints of everything the program built, before printing
         ipr::impl::Translation_unit third{ lex };
         zoo::Ctx ctx{ lex, third };
         ctx.prop = "";
         for (std::size_t i = 0; i < b.made.size(); ++i) ctx.namer.names.insert({ static_cast<const void*>(b.made[i]), "n" + std::to_string(i) });
         std::vector<std::string> fp;
         for (auto n : b.made) fp.push_back(zoo::observe(ctx, *n));
         // four printers on four streams, all alive at the same time (a printer must not depend on being the only one)
         {
            std::ostringstream s1, s2, s3, s4;
            // the first two printers are built in all-zero storage, the last two in storage that was used before (all ones)
            alignas(ipr::Printer) unsigned char store[4][sizeof(ipr::Printer)];
            std::memset(store[0], 0x00, sizeof store[0]); std::memset(store[1], 0x00, sizeof store[1]);
            std::memset(store[2], 0xFF, sizeof store[2]); std::memset(store[3], 0xFF, sizeof store[3]);
            ipr::Printer& p1 = *new (store[0]) ipr::Printer{ lex, s1 };
            ipr::Printer& p2 = *new (store[1]) ipr::Printer{ lex, s2 };
            ipr::Printer& p3 = *new (store[2]) ipr::Printer{ lex, s3 };
            ipr::Printer& p4 = *new (store[3]) ipr::Printer{ lex, s4 };
            struct Destroy { ipr::Printer* p[4]; ~Destroy() { for (auto q : p) q->~Printer(); } } destroy{ { &p1, &p2, &p3, &p4 } };
            p2.print_locations = true;
            p4.print_locations = true;
            auto print = [&](ipr::Printer& pp, std::string& oc) {
               try { pp << unit; oc = "completed"; }
               catch (const std::logic_error&) { oc = "logic_error"; }
               catch (...) { oc = "other-exception"; }
            };
            print(p1, outcome); print(p2, o2); print(p3, o3); print(p4, o4);
            off = s1.str(); on = s2.str(); off2 = s3.str(); on2 = s4.str();
         }
         if (o2 != outcome or o3 != outcome or o4 != outcome) outcome = "unstable-outcome:" + outcome + "/" + o2 + "/" + o3 + "/" + o4;
         for (std::size_t i = 0; i < b.made.size(); ++i) if (zoo::observe(ctx, *b.made[i]) != fp[i]) kept = false;
         tokens = b.expected_tokens;
      }
      vf::Persist persist_;
      r.outcome.assign(outcome.data(), outcome.size()); r.off.assign(off.data(), off.size()); r.off2.assign(off2.data(), off2.size()); r.on.assign(on.data(), on.size()); r.on2.assign(on2.data(), on2.size());
      r.steps = steps; r.noise_runs = noise_runs; r.graph_kept = kept;
      for (auto& t : tokens) r.tokens.push_back(std::string(t.data(), t.size()));
      return r;
   }

   std::vector<long long> prog_ops(const Prog& p) { return { p.family, p.a, p.b, p.c, p.d }; }

   void fail(const std::string& key, long long rank, const Prog& p, const Env& env, const std::string& what)
   {
      std::vector<long long> noise(env.noise_at.begin(), env.noise_at.end());
      std::vector<long long> prints(env.print_at.begin(), env.print_at.end());
      rep.violation(key, rank, what + " [program: " + prog_text(p) + "; history: " + env.text() + "]",
                    vf::JObj{}.str("pass", "C17").raw("ops", vf::jarr(prog_ops(p))).num("alloc", env.alloc).num("pre_noise", env.pre_noise).num("reverse", env.reverse).num("locus", env.locus).raw("noise_at", vf::jarr(noise)).raw("print_at", vf::jarr(prints)).done());
      if (verbose) std::printf("  VIOLATION %s: %s [%s]\n", key.c_str(), what.c_str(), env.text().c_str());
   }

   std::string first_difference(const std::string& a, const std::string& b)
   {
      std::size_t i = 0;
      while (i < a.size() and i < b.size() and a[i] == b[i]) ++i;
      auto clip = [&](const std::string& s) { std::size_t from = i > 12 ? i - 12 : 0; std::string c = s.substr(from, 40); for (auto& ch : c) if (ch == '\n') ch = '|'; return c; };
      return "at byte " + std::to_string(i) + ": '" + clip(a) + "' vs '" + clip(b) + "'";
   }

   void check_program(const Prog& p, bool pairs_of_noise)
   {
      const std::string fam = family_name[p.family];
      Env plain;
      Result base = run(p, plain);
      rep.count("states");
      rep.count("transitions");
      rep.count("programs");
      if (base.outcome != "completed") {
         rep.count("programs_refused_by_the_printer");
         rep.member("refused_forms", p.family == F_EXPR ? std::string("expr:") + expr_forms[p.a].name : fam);
         if (base.outcome != "logic_error") fail("C17:outcome:" + fam, 0, p, plain, "printing ended with " + base.outcome);
      }
      else rep.count("distinct_nontrivial");
      rep.member("outcomes", fam + ":" + base.outcome);
      // single-graph obligations
      if (base.off2 != base.off) fail("C17:second-print-differs:" + fam, 1, p, plain, "printing the same unit again with a fresh printer gives other text " + first_difference(base.off, base.off2));
      if (not base.graph_kept) fail("C17:graph-changed-by-printing:" + fam, 1, p, plain, "a node of the program reads differently after the unit was printed");
      if (base.outcome == "completed") {
         std::string stripped; std::vector<std::string> found;
         strip_tokens(base.off, stripped, found);
         if (not found.empty()) fail("C17:location-printed-when-disabled:" + fam, 1, p, plain, "with location printing off the text contains " + found[0]);
         for (int k = 0; k < 2; ++k) {
            const std::string& on = k ? base.on2 : base.on;
            stripped.clear(); found.clear();
            strip_tokens(on, stripped, found);
            if (stripped != base.off) fail("C17:locations-change-other-text:" + fam, 2, p, plain, std::string("with location printing on (") + (k ? "third" : "second") + " fresh printer) the text differs from the off-text by more than location tokens " + first_difference(base.off, stripped));
            for (auto& t : base.tokens) if (std::find(found.begin(), found.end(), t) == found.end()) { fail("C17:location-missing:" + fam, 2, p, plain, std::string("with location printing on (") + (k ? "third" : "second") + " fresh printer) the located node's token '" + t + "' does not appear"); break; }
            for (auto& t : found) if (std::find(base.tokens.begin(), base.tokens.end(), t) == base.tokens.end()) { fail("C17:location-invented:" + fam, 2, p, plain, "the token '" + t + "' appears but no located node carries it"); break; }
         }
      }
      // located nodes that share a line, or a whole position: each still shows its own location (as often as it is carried)
      if (base.outcome == "completed") for (int mode = 1; mode <= 2; ++mode) {
         Env e; e.locus = mode;
         Result r = run(p, e);
         rep.count("transitions");
         rep.count("traces");
         if (r.outcome != base.outcome) { fail("C17:outcome-depends-on-locations:" + fam, 3, p, e, "printing ends with " + r.outcome + " when located nodes share a line"); continue; }
         if (r.off != base.off) fail("C17:locations-change-other-text:" + fam, 3, p, e, "the text printed with locations off depends on the positions the nodes carry " + first_difference(base.off, r.off));
         std::string stripped; std::vector<std::string> found;
         strip_tokens(r.on, stripped, found);
         if (stripped != base.off) fail("C17:locations-change-other-text:" + fam, 3, p, e, "with location printing on the text differs from the off-text by more than location tokens " + first_difference(base.off, stripped));
         for (auto& t : r.tokens) if (std::count(found.begin(), found.end(), t) < std::count(r.tokens.begin(), r.tokens.end(), t)) { fail("C17:location-missing:" + fam, 3, p, e, "the token '" + t + "' is carried by " + std::to_string(std::count(r.tokens.begin(), r.tokens.end(), t)) + " located node(s) and appears " + std::to_string(std::count(found.begin(), found.end(), t)) + " time(s)"); break; }
         for (auto& t : found) if (std::find(r.tokens.begin(), r.tokens.end(), t) == r.tokens.end()) { fail("C17:location-invented:" + fam, 3, p, e, "the token '" + t + "' appears but no located node carries it"); break; }
      }
      // histories
      std::vector<Env> envs;
      for (int a = 1; a <= 3; ++a) { Env e; e.alloc = a; envs.push_back(e); }
      { Env e; e.pre_noise = true; envs.push_back(e); }
      { Env e; e.reverse = true; envs.push_back(e); }
      { Env e; e.reverse = true; e.alloc = 2; e.pre_noise = true; envs.push_back(e); }
      for (int k = 0; k < base.steps; ++k) { Env e; e.noise_at = { k }; envs.push_back(e); }
      for (int k = 1; k < base.steps; ++k) { Env e; e.print_at = { k }; envs.push_back(e); }
      { Env e; for (int k = 1; k < base.steps; ++k) e.print_at.push_back(k); envs.push_back(e); }
      if (pairs_of_noise) for (int k = 0; k < base.steps; ++k) for (int l = k + 1; l < base.steps; ++l) { Env e; e.noise_at = { k, l }; e.alloc = 1 + (k + l) % 3; envs.push_back(e); }
      if (rep.samples.size() < rep.sample_cap and base.outcome == "completed") {
         std::string text = base.on.substr(0, 160);
         rep.sample(vf::JObj{}.str("program", prog_text(p)).num("histories", (long long) envs.size() + 1).num("construction_steps", base.steps).str("text_with_locations_first_160_bytes", text).done());
      }
      for (auto& e : envs) {
         Result r = run(p, e);
         rep.count("transitions");
         rep.count("traces");
         long long rank = 10 + (long long) (e.noise_at.size() + e.print_at.size()) * 10 + e.alloc + e.pre_noise + e.reverse;
         const char* kind = e.reverse ? "reverse-order" : e.pre_noise ? "pre-noise" : not e.noise_at.empty() ? "interleaved-noise" : not e.print_at.empty() ? "printed-while-under-construction" : "address-order";
         if (r.outcome != base.outcome) { fail(std::string("C17:outcome-depends-on-history:") + kind + ":" + fam, rank, p, e, "printing ends with " + r.outcome + " under this history and with " + base.outcome + " under the plain one"); continue; }
         if (r.off != base.off) fail(std::string("C17:text-depends-on-history:") + kind + ":" + fam, rank, p, e, "the printed text differs from the plain history " + first_difference(base.off, r.off));
         if (r.on != base.on) fail(std::string("C17:located-text-depends-on-history:") + kind + ":" + fam, rank, p, e, "the text printed with locations differs from the plain history " + first_difference(base.on, r.on));
         if (not r.graph_kept) fail("C17:graph-changed-by-printing:" + fam, rank, p, e, "a node of the program reads differently after the unit was printed");
      }
   }
}

int main(int argc, char** argv)
{
   opt = vf::parse_options(argc, argv);
   vf::install_crash_handler(opt, "C17");
   verbose = not opt.replay.empty();
   const bool deep = opt.thorough();
   make_tree_table(deep ? 3 : 2);
   if (verbose) {
      auto text = vf::slurp(opt.replay);
      auto ops = vf::json_int_array(text, "ops");
      if (ops.size() < 5) { std::printf("bad replay file\n"); return 2; }
      Prog p{ int(ops[0]), int(ops[1]), int(ops[2]), int(ops[3]), int(ops[4]) };
      if (p.family == F_STMT and p.a >= int(trees.size())) make_tree_table(3);
      std::printf("replay C17: %s, all histories\n", prog_text(p).c_str());
      check_program(p, true);
      Env plain;
      Result r = run(p, plain);
      std::printf("---- text (locations off), plain history ----\n%s\n---- text (locations on) ----\n%s\n", r.off.c_str(), r.on.c_str());
      for (auto& [k, v] : rep.viols) std::printf("violated: %s  (%s)\n", k.c_str(), v.what.c_str());
      return rep.viols.empty() ? 0 : 1;
   }
   std::vector<Prog> progs;
   for (int f = 0; f < NEXPR; ++f) {
      const Arity ar = expr_forms[f].arity;
      if (ar == Un) for (int i = 0; i < 3; ++i) progs.push_back({ F_EXPR, f, i, 0, 0 });
      else if (ar == Bin or ar == Typed) for (int i = 0; i < 3; ++i) for (int j = 0; j < 3; ++j) progs.push_back({ F_EXPR, f, i, j, 0 });
      else if (ar == Tern) for (int i = 0; i < 3; ++i) for (int j = 0; j < 3; ++j) for (int k = 0; k < 3; ++k) progs.push_back({ F_EXPR, f, i, j, k });
      else for (int i = 0; i < 3; ++i) for (int j = 0; j < 3; ++j) for (int k = 0; k < (deep ? 6 : 2); ++k) progs.push_back({ F_EXPR, f, i, j, k });
   }
   for (int t = 0; t < int(trees.size()); ++t) progs.push_back({ F_STMT, t });
   for (int k = 0; k < NDECLKIND; ++k) for (int s = 0; s < NTYPESHAPE; ++s) for (int i = 0; i < 3; ++i) progs.push_back({ F_DECL, k, s, i });
   for (int k = 0; k < 5; ++k) for (int m = 0; m <= 3; ++m) for (int fl = 0; fl < (deep ? 6 : 3); ++fl) progs.push_back({ F_UDT, k, m, fl });
   for (int a = 0; a < 6; ++a) for (int b = 0; b < 6; ++b) for (int c = 0; c < 6; ++c) progs.push_back({ F_MULTI, a, b, c });
   for (std::size_t i = 0; i < progs.size(); ++i) {
      if (not opt.mine((long long) i)) continue;
      if ((i & 0x3f) == 0 and opt.expired()) { rep.cap("deadline after " + std::to_string(i) + " of " + std::to_string(progs.size()) + " programs"); break; }
      // pairs of noise positions: thorough only, and only for the small families (the space is quadratic in the number of steps)
      check_program(progs[i], deep and progs[i].family != F_STMT);
   }
   if (opt.shard == 0) {
      rep.info("space", vf::JObj{}.num("programs", (long long) progs.size()).num("expression_forms", NEXPR).num("statement_trees", (long long) trees.size()).num("declaration_kinds", NDECLKIND).num("type_shapes", NTYPESHAPE)
                           .str("histories_per_program", "plain; 3 arena address orders; 1000 unrelated nodes first; sub-terms reversed; reversed+descending+pre-noise; noise before EVERY construction step (and every pair of steps in thorough, small families)").done());
      rep.sample(vf::JObj{}.str("program", prog_text({ F_EXPR, 20, 2, 1, 0 })).str("checked", "same bytes under every history; fresh printer reproduces; graph fingerprint unchanged; location tokens only when enabled").done());
      rep.sample(vf::JObj{}.str("program", prog_text({ F_STMT, 100 })).done());
   }
   rep.write(opt);
   return 0;
}
