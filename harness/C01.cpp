// C01 — types are unified: same constructor arguments give the same node, and only then.
// Every history of type-constructor requests up to a depth bound is executed on a fresh Lexicon; operands are base
// types (built-in, user-defined) or the results of earlier steps.  A reference model (request key -> node id, with the
// documented normal forms applied to the KEY) predicts, for every step, whether the returned node must be an earlier
// one or a new one.  Each history runs under several heap-address personalities (the lookup tables are ordered by
// node address).  At the end of a history every request is re-issued in original, reversed and rotated order.
#include <functional>
#include <map>
#include <string>
#include <unordered_map>
#include <vector>
#include <memory>

#include <ipr/impl>

#include "envctl.hpp"
#include "report.hpp"

namespace {
   vf::Report rep;
   vf::Options opt;
   bool verbose = false;

   enum Op {
      Pointer, Reference, Rvalue_reference, Array, Qualified, Function, FunctionThrows, FunctionXfer, FunctionThrowsXfer,
      ProductW, ProductSeq, SumW, SumSeq, Forall, Ptr_to_member, Tor, AsTypeExpr, AsTypeExprXfer, AsTypeId,
      XferFromLinkage, XferFromConvention, Xfer, NOPS
   };
   const char* op_name[] = {
      "pointer", "reference", "rvalue_reference", "array", "qualified", "function", "function+throws", "function+transfer",
      "function+throws+transfer", "product(warehouse)", "product(sequence)", "sum(warehouse)", "sum(sequence)", "forall",
      "ptr_to_member", "tor", "as_type(expr)", "as_type(expr,transfer)", "as_type(identifier)", "transfer_from_linkage",
      "transfer_from_convention", "transfer",
   };

   struct Req {
      int op;
      int a = 0, b = 0, c = 0, d = 0;
   };

   enum Kind { KType, KProduct, KSum, KXfer };

   // What the model knows about a node id.
   struct Info {
      std::string key;
      int qual = 0;         // for a Qualified: its qualifier mask and base id
      int base = -1;
      const void* addr = nullptr;
   };

   struct Slot {
      const void* addr;     // identity, always through the interface pointer
      int mid;              // model id
   };

   const char8_t* const linkage_words[] = { u8"C++", u8"C", u8"Java" };
   const char8_t* const cc_words[] = { u8"", u8"fastcall" };

   // The second (or transient) Lexicon of an execution is not byte-for-byte the twin of the first: it starts by interning a word of its
   // own, so that whatever it writes lands at other offsets than the first one's (two Lexicons sharing storage they should not
   // share overwrite each other with DIFFERENT bytes, not with the same ones).
   bool other_world = false;
   struct Salted { explicit Salted(ipr::impl::Lexicon& l) { if (other_world) { (void) l.get_identifier(u8"the-other-lexicon-was-here"); (void) l.get_string(u8"0123456789-other"); } } };
   struct World {
      ipr::impl::Lexicon lex;
      Salted salted{ lex };
      ipr::impl::Translation_unit unit{ lex };
      // operand pools (grow with the history)
      std::vector<const ipr::Type*> ty;        std::vector<int> ty_mid;
      std::vector<const ipr::Product*> pr;     std::vector<int> pr_mid;
      std::vector<const ipr::Sum*> sm;         std::vector<int> sm_mid;
      std::vector<const ipr::Transfer*> xf;    std::vector<std::pair<int, int>> xf_spell;     // (linkage word, cc word)
      std::vector<const ipr::Expr*> ex;        // fixed: literals, id-expr, false, true, noexcept(x)
      std::vector<const ipr::Identifier*> ids;
      ipr::Qualifiers q[8];
      // model
      std::map<std::string, int> mid_of_key;
      std::vector<Info> info;
      std::unordered_map<const void*, int> mid_of_addr;
      std::vector<std::pair<Req, int>> issued;        // every request so far with the id the model assigned
      int n_setup = 0;
      int n_foreign = 0;
      std::string trace;                              // readable, for witnesses
      bool failed = false;
      std::string fail_key, fail_what;

      int foreign(const void* addr, const std::string& name)      // a node the harness did not request (base pool)
      {
         int mid = int(info.size());
         info.push_back(Info{ "base:" + name, 0, -1, addr });
         mid_of_key["base:" + name] = mid;
         mid_of_addr[addr] = mid;
         return mid;
      }

      World()
      {
         const ipr::Qualifiers b[3] = { lex.const_qualifier(), lex.volatile_qualifier(), lex.restrict_qualifier() };
         for (int m = 0; m < 8; ++m) {
            q[m] = ipr::Qualifiers{};
            for (int i = 0; i < 3; ++i) if (m & (1 << i)) q[m] |= b[i];
         }
         auto add_type = [&](const ipr::Type& t, const char* n) { ty.push_back(&t); ty_mid.push_back(foreign(static_cast<const ipr::Node*>(&t), n)); };
         add_type(lex.int_type(), "int");
         add_type(lex.char_type(), "char");
         auto* c = lex.make_class(*unit.global_region());
         c->id = &lex.get_identifier(u8"C");
         add_type(*c, "C");
         ex.push_back(lex.make_literal(lex.int_type(), u8"1"));
         ex.push_back(lex.make_literal(lex.int_type(), u8"2"));
         ex.push_back(lex.make_id_expr(lex.get_identifier(u8"x")));
         ex.push_back(&lex.false_value());
         ex.push_back(&lex.true_value());
         ex.push_back(lex.make_noexcept(*ex[2]));
         for (std::size_t i = 0; i < ex.size(); ++i) foreign(static_cast<const ipr::Node*>(ex[i]), "expr" + std::to_string(i));
         ids.push_back(&lex.get_identifier(u8"T"));
         ids.push_back(&lex.get_identifier(u8"U"));
         foreign(static_cast<const ipr::Node*>(ids[0]), "id:T");
         foreign(static_cast<const ipr::Node*>(ids[1]), "id:U");
         // transfers: the natural one, and two other spellings of it, "C", and ("Java","fastcall")
         xf.push_back(&ipr::impl::cxx_transfer());
         xf_spell.push_back({ 0, 0 });
         foreign(&ipr::impl::cxx_transfer(), "xfer:natural");
         n_foreign = int(info.size());
         // common prefix of every history, issued through the same machinery so that it is modelled too
         apply(Req{ Xfer, 0, 0 });                  // get_transfer(cxx, cc(""))   -- natural, spelled out
         apply(Req{ XferFromLinkage, 0 });          // get_transfer_from_linkage(get_linkage("C++")) -- natural
         apply(Req{ XferFromLinkage, 1 });          // "C"
         apply(Req{ Xfer, 2, 1 });                  // ("Java","fastcall")
         apply(Req{ Xfer, 1, 1 });                  // ("C","fastcall"): same linkage as xfer#3, same convention as xfer#4
         apply(Req{ Xfer, 0, 1 });                  // ("C++","fastcall"): the natural linkage with a non-natural convention
         apply(Req{ ProductW, 0, 0 });              // product()
         apply(Req{ ProductW, 1, 0 });              // product(int)
         apply(Req{ SumW, 0, 0 });                  // sum()
         n_setup = int(issued.size());
         trace.clear();
      }

      // ---- readable rendering ----
      std::string tyn(int i) const { return i < 3 ? std::string(i == 0 ? "int" : i == 1 ? "char" : "C") : "T#" + std::to_string(ty_mid[i]); }
      static std::string qn(int m) { std::string s; if (m & 1) s += "c"; if (m & 2) s += "v"; if (m & 4) s += "r"; return s; }
      static std::string xn(std::pair<int, int> sp) { return std::string("(") + reinterpret_cast<const char*>(linkage_words[sp.first]) + ",\"" + reinterpret_cast<const char*>(cc_words[sp.second]) + "\")"; }
      static std::vector<int> wseq(int code, int len)      // warehouse contents: base-3 digits of code
      {
         std::vector<int> v;
         for (int i = 0; i < len; ++i) { v.push_back(code % 3); code /= 3; }
         return v;
      }

      std::string render(const Req& r) const
      {
         std::string s = op_name[r.op];
         switch (r.op) {
         case Pointer: case Reference: case Rvalue_reference: return s + "(" + tyn(r.a) + ")";
         case Array: return s + "(" + tyn(r.a) + ", lit" + std::to_string(r.b + 1) + ")";
         case Qualified: return s + "(" + qn(r.a) + ", " + tyn(r.b) + ")";
         case Function: return s + "(P#" + std::to_string(pr_mid[r.a]) + ", " + tyn(r.b) + ")";
         case FunctionThrows: return s + "(P#" + std::to_string(pr_mid[r.a]) + ", " + tyn(r.b) + ", e" + std::to_string(r.c) + ")";
         case FunctionXfer: return s + "(P#" + std::to_string(pr_mid[r.a]) + ", " + tyn(r.b) + ", xfer" + xn(xf_spell[r.c]) + "#" + std::to_string(r.c) + ")";
         case FunctionThrowsXfer: return s + "(P#" + std::to_string(pr_mid[r.a]) + ", " + tyn(r.b) + ", e" + std::to_string(r.c) + ", xfer" + xn(xf_spell[r.d]) + "#" + std::to_string(r.d) + ")";
         case ProductW: case SumW: { s += "["; for (int e : wseq(r.b, r.a)) s += tyn(e) + " "; return s + "]"; }
         case ProductSeq: return s + "(elements of P#" + std::to_string(pr_mid[r.a]) + ")";
         case SumSeq: return s + "(elements of S#" + std::to_string(sm_mid[r.a]) + ")";
         case Forall: return s + "(P#" + std::to_string(pr_mid[r.a]) + ", " + tyn(r.b) + ")";
         case Ptr_to_member: return s + "(" + tyn(r.a) + ", " + tyn(r.b) + ")";
         case Tor: return s + "(P#" + std::to_string(pr_mid[r.a]) + ", S#" + std::to_string(sm_mid[r.b]) + ")";
         case AsTypeExpr: return s + "(e" + std::to_string(r.a) + ")";
         case AsTypeExprXfer: return s + "(e" + std::to_string(r.a) + ", xfer" + xn(xf_spell[r.b]) + "#" + std::to_string(r.b) + ")";
         case AsTypeId: return s + "(" + (r.a ? "U" : "T") + ")";
         case XferFromLinkage: return s + "(" + reinterpret_cast<const char*>(linkage_words[r.a]) + ")";
         case XferFromConvention: return s + "(\"" + reinterpret_cast<const char*>(cc_words[r.a]) + "\")";
         case Xfer: return s + xn({ r.a, r.b });
         }
         return s;
      }

      // ---- the model's key for a request (documented normal forms applied here) ----
      static bool natural(std::pair<int, int> sp) { return sp.first == 0 and sp.second == 0; }
      std::string key(const Req& r, int& qual, int& base) const
      {
         auto T = [&](int i) { return "t" + std::to_string(ty_mid[i]); };
         auto P = [&](int i) { return "p" + std::to_string(pr_mid[i]); };
         auto X = [&](int i) { return "x" + std::to_string(xf_spell[i].first) + "." + std::to_string(xf_spell[i].second); };
         auto E = [&](int i) { return "e" + std::to_string(i); };
         auto fun = [&](int p, int t, int e, int x) {
            std::string k = "fun:" + P(p) + ":" + T(t) + ":" + E(e);
            if (not natural(xf_spell[x])) k += ":" + X(x);
            return k;
         };
         switch (r.op) {
         case Pointer: return "ptr:" + T(r.a);
         case Reference: return "ref:" + T(r.a);
         case Rvalue_reference: return "rref:" + T(r.a);
         case Array: return "arr:" + T(r.a) + ":" + E(r.b);
         case Qualified: {
            const Info& in = info[ty_mid[r.b]];
            qual = r.a | in.qual;
            base = in.base >= 0 ? in.base : ty_mid[r.b];
            return "qual:" + std::to_string(qual) + ":t" + std::to_string(base);
         }
         case Function: return fun(r.a, r.b, 3, 0);                     // default exception specification = false
         case FunctionThrows: return fun(r.a, r.b, r.c, 0);
         case FunctionXfer: return fun(r.a, r.b, 3, r.c);
         case FunctionThrowsXfer: return fun(r.a, r.b, r.c, r.d);
         case ProductW: { std::string k = "prod:"; for (int e : wseq(r.b, r.a)) k += T(e) + ","; return k; }
         case SumW: { std::string k = "sum:"; for (int e : wseq(r.b, r.a)) k += T(e) + ","; return k; }
         case ProductSeq: { std::string k = "prod:"; for (auto& e : pr[r.a]->elements()) k += "t" + std::to_string(mid_of_addr.at(static_cast<const ipr::Node*>(&e))) + ","; return k; }
         case SumSeq: { std::string k = "sum:"; for (auto& e : sm[r.a]->elements()) k += "t" + std::to_string(mid_of_addr.at(static_cast<const ipr::Node*>(&e))) + ","; return k; }
         case Forall: return "forall:" + P(r.a) + ":" + T(r.b);
         case Ptr_to_member: return "ptm:" + T(r.a) + ":" + T(r.b);
         case Tor: return "tor:" + P(r.a) + ":s" + std::to_string(sm_mid[r.b]);
         case AsTypeExpr: return "as:" + E(r.a);
         case AsTypeExprXfer: return natural(xf_spell[r.b]) ? "as:" + E(r.a) : "as:" + E(r.a) + ":" + X(r.b);
         case AsTypeId: return "asid:" + std::to_string(r.a);
         // transfers: identity is per constructor function (two constructors may or may not share a node)
         case XferFromLinkage: return "xl:" + std::to_string(r.a);
         case XferFromConvention: return "xc:" + std::to_string(r.a);
         case Xfer:
            if (r.a == 0) return "xc:" + std::to_string(r.b);           // documented: C++ linkage -> from_convention
            if (r.b == 0) return "xl:" + std::to_string(r.a);           // natural convention -> from_linkage
            return "x:" + std::to_string(r.a) + "." + std::to_string(r.b);
         }
         return "?";
      }

      // ---- the implementation ----
      struct Result { const void* addr; Kind kind; const ipr::Type* t = nullptr; const ipr::Product* p = nullptr; const ipr::Sum* s = nullptr; const ipr::Transfer* x = nullptr; };

      template<class T>
      Result type_result(const T& t)
      {
         Result r{ static_cast<const ipr::Node*>(&t), KType };
         r.t = &t;
         if constexpr (std::is_same_v<T, ipr::Product>) { r.kind = KProduct; r.p = &t; }
         if constexpr (std::is_same_v<T, ipr::Sum>) { r.kind = KSum; r.s = &t; }
         return r;
      }

      Result call(const Req& r)
      {
         auto fill = [&](ipr::impl::Warehouse<ipr::Type>& w, int len, int code) { for (int e : wseq(code, len)) w.push_back(*ty[e]); };
         switch (r.op) {
         case Pointer: return type_result(lex.get_pointer(*ty[r.a]));
         case Reference: return type_result(lex.get_reference(*ty[r.a]));
         case Rvalue_reference: return type_result(lex.get_rvalue_reference(*ty[r.a]));
         case Array: return type_result(lex.get_array(*ty[r.a], *ex[r.b]));
         case Qualified: return type_result(lex.get_qualified(q[r.a], *ty[r.b]));
         case Function: return type_result(lex.get_function(*pr[r.a], *ty[r.b]));
         case FunctionThrows: return type_result(lex.get_function(*pr[r.a], *ty[r.b], *ex[r.c]));
         case FunctionXfer: return type_result(lex.get_function(*pr[r.a], *ty[r.b], *xf[r.c]));
         case FunctionThrowsXfer: return type_result(lex.get_function(*pr[r.a], *ty[r.b], *ex[r.c], *xf[r.d]));
         case ProductW: { ipr::impl::Warehouse<ipr::Type> w; fill(w, r.a, r.b); auto& p = lex.get_product(w); return type_result(p); }
         case SumW: { ipr::impl::Warehouse<ipr::Type> w; fill(w, r.a, r.b); auto& s = lex.get_sum(w); return type_result(s); }
         case ProductSeq: return type_result(lex.get_product(pr[r.a]->elements()));
         case SumSeq: return type_result(lex.get_sum(sm[r.a]->elements()));
         case Forall: return type_result(lex.get_forall(*pr[r.a], *ty[r.b]));
         case Ptr_to_member: return type_result(lex.get_ptr_to_member(*ty[r.a], *ty[r.b]));
         case Tor: return type_result(lex.get_tor(*pr[r.a], *sm[r.b]));
         case AsTypeExpr: return type_result(lex.get_as_type(*ex[r.a]));
         case AsTypeExprXfer: return type_result(lex.get_as_type(*ex[r.a], *xf[r.b]));
         case AsTypeId: return type_result(lex.get_as_type(*ids[r.a]));
         case XferFromLinkage: { auto& x = lex.get_transfer_from_linkage(lex.get_linkage(linkage_words[r.a])); return Result{ &x, KXfer, nullptr, nullptr, nullptr, &x }; }
         case XferFromConvention: { auto& x = lex.get_transfer_from_convention(lex.get_calling_convention(cc_words[r.a])); return Result{ &x, KXfer, nullptr, nullptr, nullptr, &x }; }
         case Xfer: { auto& x = lex.get_transfer(lex.get_linkage(linkage_words[r.a]), lex.get_calling_convention(cc_words[r.b])); return Result{ &x, KXfer, nullptr, nullptr, nullptr, &x }; }
         }
         return Result{ nullptr, KType };
      }

      void fail(const std::string& key_, const std::string& what)
      {
         if (failed) return;
         failed = true;
         fail_key = key_;
         fail_what = what;
      }

      static std::pair<int, int> spelling_of(const Req& r)
      {
         switch (r.op) {
         case XferFromLinkage: return { r.a, 0 };
         case XferFromConvention: return { 0, r.a };
         default: return { r.a, r.b };
         }
      }

      // One step: ask the implementation, ask the model, compare.  Returns false when the history cannot go on.
      bool apply(const Req& r)
      {
         // a request the library must refuse (empty qualifier set): refused, and nothing else changes -- the requests that
         // follow in the history are answered as if it had never been made
         if (r.op == Qualified and r.a == 0) {
            trace += "qualified({}, " + tyn(r.b) + ") refused; ";
            rep.count("transitions");
            bool refused = false;
            try { (void) lex.get_qualified(ipr::Qualifiers{ }, *ty[r.b]); }
            catch (...) { refused = true; }
            if (not refused) { fail("C01:qualified:empty-set-answered", "get_qualified with an empty qualifier set returned a node"); return false; }
            return true;
         }
         int qual = 0, base = -1;
         const std::string k = key(r, qual, base);
         trace += render(r);
         Result got = call(r);
         rep.count("transitions");
         auto it = mid_of_key.find(k);
         int mid;
         if (it != mid_of_key.end()) {
            mid = it->second;
            if (info[mid].addr != got.addr) {
               fail(std::string("C01:") + op_name[r.op] + ":same-request-different-node",
                    "the request " + render(r) + " was answered with a node other than the one returned before for the same arguments");
               trace += " -> NEW NODE (expected #" + std::to_string(mid) + "); ";
               return false;
            }
         }
         else {
            auto other = mid_of_addr.find(got.addr);
            // Two different transfer constructors (or the natural constant) may legitimately share a node; two keys of
            // the same constructor may not.
            const bool xfer_alias_ok = got.kind == KXfer and other != mid_of_addr.end()
                                       and info[other->second].key.substr(0, info[other->second].key.find(':')) != k.substr(0, k.find(':'));
            if (other != mid_of_addr.end() and not xfer_alias_ok) {
               fail(std::string("C01:") + op_name[r.op] + ":different-request-same-node",
                    "the request " + render(r) + " was answered with the node of a different request (" + info[other->second].key + ")");
               trace += " -> ALIAS of #" + std::to_string(other->second) + "; ";
               return false;
            }
            mid = int(info.size());
            info.push_back(Info{ k, r.op == Qualified ? qual : 0, r.op == Qualified ? base : -1, got.addr });
            mid_of_key[k] = mid;
            mid_of_addr.insert({ got.addr, mid });
         }
         trace += " -> #" + std::to_string(mid) + "; ";
         issued.push_back({ r, mid });
         // grow the operand pools
         switch (got.kind) {
         case KProduct: pr.push_back(got.p); pr_mid.push_back(mid); break;
         case KSum: sm.push_back(got.s); sm_mid.push_back(mid); break;
         case KXfer: {
            xf.push_back(got.x);
            auto sp = spelling_of(r);
            xf_spell.push_back(sp);
            // value equality of transfers: equal exactly when spelled the same
            for (std::size_t i = 0; i < xf.size(); ++i) {
               bool eq = *xf[i] == *got.x, want = xf_spell[i] == sp;
               if (eq != want)
                  fail("C01:transfer:equality-disagrees-with-spelling", "operator== on transfers " + xn(xf_spell[i]) + " and " + xn(sp) + " is " + (eq ? "true" : "false"));
            }
            break;
         }
         default: ty.push_back(got.t); ty_mid.push_back(mid); break;
         }
         return not failed;
      }

      // Every request so far, again, in three orders; nothing new may appear.
      void reissue_all()
      {
         const std::size_t n = issued.size();
         auto again = [&](std::size_t i) {
            auto [r, mid] = issued[i];
            Result got = call(r);
            rep.count("transitions");
            if (got.addr != info[mid].addr)
               fail(std::string("C01:") + op_name[r.op] + ":same-request-different-node",
                    "re-issuing " + render(r) + " at the end of the history returned a node other than the recorded one");
         };
         for (std::size_t i = 0; i < n and not failed; ++i) again(i);
         for (std::size_t i = n; i-- > 0 and not failed;) again(i);
         for (std::size_t i = 0; i < n and not failed; ++i) again((i + n / 2) % n);
      }
   };

   // The requests available after a given prefix.  `breadth` 1 = full alphabet, 0 = compact (one representative per
   // constructor plus the collisions that matter), used to reach one more level of depth.
   std::vector<Req> alphabet(const World& w, int breadth)
   {
      std::vector<Req> a;
      const int t = int(w.ty.size()), p = int(w.pr.size()), s = int(w.sm.size()), x = int(w.xf.size());
      auto types = [&](bool all) { std::vector<int> v; if (all) { for (int i = 0; i < t; ++i) v.push_back(i); } else { v = { 0, 2 }; for (int i = 3; i < t; ++i) v.push_back(i); } return v; };
      const auto T = types(breadth > 0);
      std::vector<int> P;
      if (breadth > 0) for (int i = 0; i < p; ++i) P.push_back(i);
      else { P.push_back(1); for (int i = 2; i < p; ++i) P.push_back(i); }
      for (int i : T) a.push_back({ Pointer, i });
      for (int i : T) a.push_back({ Reference, i });
      for (int i : T) a.push_back({ Rvalue_reference, i });
      for (int i : T) for (int b = 0; b < (breadth > 0 ? 2 : 1); ++b) a.push_back({ Array, i, b });
      for (int i : T) for (int m : (breadth > 0 ? std::vector<int>{ 1, 2, 3, 4, 5, 6, 7 } : std::vector<int>{ 1, 2, 3 })) a.push_back({ Qualified, m, i });
      a.push_back({ Qualified, 0, T.back() });          // refused request
      // functions: P x {int, last type} x throws/xfer variants
      std::vector<int> FT = { 0 };
      if (t > 3) FT.push_back(t - 1); else FT.push_back(2);
      std::vector<int> FP = { 1 };
      if (p > 2) FP.push_back(p - 1); else if (breadth > 0) FP.push_back(0);
      for (int pi : FP)
         for (int ti : FT) {
            a.push_back({ Function, pi, ti });
            for (int e : { 3, 4, 5 }) if (breadth > 0 or e != 5) a.push_back({ FunctionThrows, pi, ti, e });
            for (int xi = 0; xi < x; ++xi) if (breadth > 0 or xi == 1 or xi == 3 or xi == 5 or xi == 6) a.push_back({ FunctionXfer, pi, ti, xi });
            for (int e : { 3, 4 }) for (int xi = 0; xi < x; ++xi) if (breadth > 0 ? true : ((xi == 3 or xi == 6) and e == 4)) a.push_back({ FunctionThrowsXfer, pi, ti, e, xi });
         }
      // products / sums from warehouses: all sequences of length <= 2 over the three base types (+ a few of length 3)
      auto warehouses = [&](int op) {
         a.push_back({ op, 0, 0 });
         for (int c = 0; c < 3; ++c) a.push_back({ op, 1, c });
         if (breadth > 0) { for (int c = 0; c < 9; ++c) a.push_back({ op, 2, c }); for (int c : { 0, 5, 13, 26 }) a.push_back({ op, 3, c }); }
         else { a.push_back({ op, 2, 1 }); a.push_back({ op, 2, 3 }); }
      };
      warehouses(ProductW);
      warehouses(SumW);
      for (int i : P) a.push_back({ ProductSeq, i });
      for (int i = 0; i < s; ++i) a.push_back({ SumSeq, i });
      for (int pi : FP) for (int ti : FT) a.push_back({ Forall, pi, ti });
      for (int i : T) for (int j : T) if (breadth > 0 or i != j) a.push_back({ Ptr_to_member, i, j });
      for (int pi : FP) for (int si = 0; si < s; ++si) a.push_back({ Tor, pi, si });
      for (int e : { 0, 2 }) a.push_back({ AsTypeExpr, e });
      for (int e : { 0, 2 }) for (int xi = 0; xi < x; ++xi) if (breadth > 0 or xi == 1 or xi == 3 or xi == 5 or xi == 6) a.push_back({ AsTypeExprXfer, e, xi });
      a.push_back({ AsTypeId, 0 });
      a.push_back({ AsTypeId, 1 });
      for (int l = 0; l < 3; ++l) a.push_back({ XferFromLinkage, l });
      for (int c = 0; c < 2; ++c) a.push_back({ XferFromConvention, c });
      if (breadth > 0) for (int l = 0; l < 3; ++l) for (int c = 0; c < 2; ++c) a.push_back({ Xfer, l, c });
      return a;
   }

   const char* mode_name[] = { "ascending addresses", "descending addresses", "alternating addresses", "malloc" };

   struct Cur { const std::vector<int>* h = nullptr; int mode = 0; int breadth = 0; int twin = 0; } cur;
   void describe_current(char* buf, std::size_t n)
   {
      std::size_t used = std::snprintf(buf, n, "\"pass\":\"C01\",\"mode\":%d,\"breadth\":%d,\"twin\":%d,\"ops\":[", cur.mode, cur.breadth, cur.twin);
      if (cur.h) for (std::size_t i = 0; i < cur.h->size() and used + 16 < n; ++i) used += std::snprintf(buf + used, n - used, "%s%d", i ? "," : "", (*cur.h)[i]);
      std::snprintf(buf + used, n - used, "]");
   }

   // A history is a list of indices into the alphabet available at each step.
   // Returns the size of the alphabet after the last step (for the enumerator), or -1 when the history failed.
   // twin: 0 = one Lexicon; 1 = a second Lexicon is kept alive and performs every request right after the first one (each against
   // its own model); 2 = after every step a third Lexicon is created, performs the history so far, and is destroyed.
   const char* const twin_name[] = { "one Lexicon", "two Lexicons in lockstep", "a transient Lexicon after every step" };
   int run(const std::vector<int>& h, int mode, int breadth, bool leaf, int twin = 0)
   {
      using vf::env::Alloc;
      cur = { &h, mode, breadth, twin };
      const Alloc modes[] = { Alloc::Ascending, Alloc::Descending, Alloc::Alternating, Alloc::Malloc };
      vf::env::set_alloc(modes[mode]);
      int next = -1;
      {
         World w;
         std::unique_ptr<World> second;
         if (twin == 1) { other_world = true; second = std::make_unique<World>(); other_world = false; }
         std::string where;
         auto other_failed = [&](World& o, const char* who) {
            if (not o.failed or w.failed) return;
            w.failed = true; w.fail_key = o.fail_key; w.fail_what = o.fail_what; w.trace = o.trace; where = who;
         };
         bool ok = not w.failed;
         for (std::size_t i = 0; i < h.size() and ok; ++i) {
            auto a = alphabet(w, breadth);
            if (h[i] >= int(a.size())) { ok = false; w.fail("C01:harness:alphabet-index", "replay index out of range"); break; }
            ok = w.apply(a[h[i]]);
            if (leaf) rep.count("states");
            if (ok and second) {
               auto b = alphabet(*second, breadth);
               if (h[i] < int(b.size())) { second->apply(b[h[i]]); rep.count("transitions"); }
               other_failed(*second, " [observed on the second of two Lexicons performing the same requests in lockstep]");
               ok = not w.failed;
            }
            if (ok and twin == 2) {
               other_world = true;
               World t;
               other_world = false;
               for (std::size_t j = 0; j <= i and not t.failed; ++j) { auto b = alphabet(t, breadth); if (h[j] >= int(b.size())) break; t.apply(b[h[j]]); rep.count("transitions"); }
               other_failed(t, " [observed on a transient Lexicon that repeated the history so far]");
               ok = not w.failed;
            }
         }
         if (ok and leaf) w.reissue_all();
         if (ok and leaf and second) { second->reissue_all(); other_failed(*second, " [observed on the second of two Lexicons performing the same requests in lockstep]"); }
         if (w.failed and not where.empty()) w.fail_what += where;
         if (w.failed) {
            std::vector<long long> ops(h.begin(), h.end());
            rep.violation(w.fail_key, static_cast<long long>(h.size()) * 10 + mode, w.fail_what + " [" + mode_name[mode] + "; " + w.trace + "]",
                          vf::JObj{}.str("pass", "C01").num("mode", mode).num("breadth", breadth).num("twin", twin).raw("ops", vf::jarr(ops)).str("trace", w.trace).done());
            if (verbose) std::printf("  VIOLATION %s: %s\n    trace: %s\n", w.fail_key.c_str(), w.fail_what.c_str(), w.trace.c_str());
         }
         else {
            next = int(alphabet(w, breadth).size());
            if (verbose) std::printf("  trace: %s\n", w.trace.c_str());
         }
         if (leaf) {
            rep.count("traces");
            rep.member("outcomes", std::to_string(w.info.size()) + "/" + std::to_string(w.issued.size()));
            if (int(w.info.size()) - w.n_foreign < int(w.issued.size())) rep.count("distinct_nontrivial");      // some request hit an existing node
         }
      }
      vf::env::set_alloc(Alloc::Malloc);
      vf::env::arena_reset();
      cur.h = nullptr;
      return next;
   }

   // Depth-first enumeration of all histories of length exactly `depth`; the alphabet of step i+1 depends on the
   // prefix, so prefixes are executed once to learn its size (and are themselves checked), leaves are executed in full.
   long long leaves = 0;
   void dfs(std::vector<int>& h, int depth, int mode, int breadth, int width, long long& counter, int twin = 0)
   {
      if (opt.expired()) return;
      for (int c = 0; c < width; ++c) {
         h.push_back(c);
         if (int(h.size()) == depth) {
            if (opt.mine(counter++)) { run(h, mode, breadth, true, twin); ++leaves; }
         }
         else {
            int w2 = run(h, mode, breadth, false);
            if (w2 > 0) dfs(h, depth, mode, breadth, w2, counter, twin);
         }
         h.pop_back();
         if (opt.expired()) return;
      }
   }

   void explore(int depth, int breadth, const std::vector<int>& modes, int twin = 0)
   {
      for (int mode : modes) {
         for (int d = 1; d <= depth; ++d) {
            std::vector<int> h;
            long long counter = 0;
            int w0 = run(h, mode, breadth, false);
            dfs(h, d, mode, breadth, w0, counter, twin);
            if (opt.expired()) { rep.cap("deadline: breadth " + std::to_string(breadth) + " depth " + std::to_string(d) + " mode " + mode_name[mode]); return; }
            if (opt.shard == 0) rep.member("completed", "breadth=" + std::to_string(breadth) + " depth=" + std::to_string(d) + " " + mode_name[mode]);
         }
      }
   }

   // Long deterministic histories: N distinct keys per constructor family inserted in three orders, then every key
   // requested again in three orders; #distinct nodes must equal #distinct keys.
   void long_history(int mode, int N, int ins_order)
   {
      using vf::env::Alloc;
      const Alloc modes[] = { Alloc::Ascending, Alloc::Descending, Alloc::Alternating, Alloc::Malloc };
      vf::env::set_alloc(modes[mode]);
      {
         World w;
         cur = { nullptr, mode, 2 };
         std::vector<std::pair<std::string, const void*>> reqs;    // (family, node)
         auto bitrev = [&](int i, int n) { int bits = 0; while ((1 << bits) < n) ++bits; int r = 0; for (int b = 0; b < bits; ++b) if (i & (1 << b)) r |= 1 << (bits - 1 - b); return r; };
         // operand universe: a pointer tower over int and N literal bounds
         std::vector<const ipr::Type*> tower{ &w.lex.int_type() };
         for (int i = 1; i < N; ++i) tower.push_back(&w.lex.get_pointer(*tower.back()));
         std::vector<const ipr::Expr*> lits;
         for (int i = 0; i < N; ++i) lits.push_back(w.lex.make_literal(w.lex.int_type(), std::u8string(reinterpret_cast<const char8_t*>(std::to_string(i).c_str()))));
         auto order = [&](int ord, int i) { return ord == 0 ? i : ord == 1 ? N - 1 - i : (bitrev(i, N) < N ? bitrev(i, N) : i); };
         struct Family { const char* name; std::function<const void*(int)> make; };
         ipr::impl::Warehouse<ipr::Type> one;
         one.push_back(w.lex.int_type());
         auto& pint = w.lex.get_product(one);
         std::vector<Family> fams = {
            { "reference", [&](int i) { return static_cast<const ipr::Node*>(&w.lex.get_reference(*tower[i])); } },
            { "rvalue_reference", [&](int i) { return static_cast<const ipr::Node*>(&w.lex.get_rvalue_reference(*tower[i])); } },
            { "array", [&](int i) { return static_cast<const ipr::Node*>(&w.lex.get_array(*tower[i % 7], *lits[i])); } },
            { "qualified", [&](int i) { return static_cast<const ipr::Node*>(&w.lex.get_qualified(w.q[1 + i % 7], *tower[i / 7])); } },
            { "function", [&](int i) { return static_cast<const ipr::Node*>(&w.lex.get_function(pint, *tower[i])); } },
            { "function+throws", [&](int i) { return static_cast<const ipr::Node*>(&w.lex.get_function(pint, *tower[i % 5], *lits[i])); } },
            { "function+throws+transfer", [&](int i) { return static_cast<const ipr::Node*>(&w.lex.get_function(pint, *tower[i % 5], *lits[i], *w.xf[3 + i % 2])); } },
            { "ptr_to_member", [&](int i) { return static_cast<const ipr::Node*>(&w.lex.get_ptr_to_member(*tower[i % 31], *tower[i / 31])); } },
            { "forall", [&](int i) { return static_cast<const ipr::Node*>(&w.lex.get_forall(pint, *tower[i])); } },
            { "as_type(expr)", [&](int i) { return static_cast<const ipr::Node*>(&w.lex.get_as_type(*lits[i])); } },
            { "as_type(expr,transfer)", [&](int i) { return static_cast<const ipr::Node*>(&w.lex.get_as_type(*lits[i / 2], *w.xf[3 + i % 2])); } },
            { "product(warehouse)", [&](int i) {
                 ipr::impl::Warehouse<ipr::Type> wh;           // base-4 digits of i over 4 tower types, length = number of digits
                 int v = i; do { wh.push_back(*tower[v % 4]); v /= 4; } while (v > 0);
                 if (i % 2) wh.push_back(*tower[4]);
                 return static_cast<const ipr::Node*>(&w.lex.get_product(wh)); } },
            { "sum(warehouse)", [&](int i) {
                 ipr::impl::Warehouse<ipr::Type> wh;
                 int v = i; do { wh.push_back(*tower[v % 4]); v /= 4; } while (v > 0);
                 if (i % 2) wh.push_back(*tower[4]);
                 return static_cast<const ipr::Node*>(&w.lex.get_sum(wh)); } },
         };
         for (auto& f : fams) {
            opt.kick();
            // insertion in the order of this job (ascending / descending / bit-reversed key order)
            // the node returned by the FIRST request for each key is what every later request must return
            std::vector<const void*> canon(N);
            for (int i = 0; i < N; ++i) {
               canon[order(ins_order, i)] = f.make(order(ins_order, i));
               rep.count("transitions");
            }
            std::unordered_map<const void*, int> seen;
            bool bad = false;
            for (int i = 0; i < N and not bad; ++i) {
               auto [it, fresh] = seen.insert({ canon[i], i });
               if (not fresh) {
                  rep.violation(std::string("C01:") + f.name + ":different-request-same-node", 100000 + i,
                                std::string("long history: keys #") + std::to_string(it->second) + " and #" + std::to_string(i) + " of family " + f.name + " share a node [" + mode_name[mode] + "]",
                                vf::JObj{}.str("pass", "C01").num("mode", mode).num("breadth", 2).num("long", N).num("ins_order", ins_order).raw("ops", "[]").done());
                  bad = true;
               }
            }
            for (int ord = 0; ord < 3 and not bad; ++ord)
               for (int i = 0; i < N and not bad; ++i) {
                  int k = order(ord, i);
                  rep.count("transitions");
                  if (f.make(k) != canon[k]) {
                     rep.violation(std::string("C01:") + f.name + ":same-request-different-node", 100000 + i,
                                   std::string("long history: key #") + std::to_string(k) + " of family " + f.name + " returned a new node after " + std::to_string(N) + " insertions [" + mode_name[mode] + "]",
                                   vf::JObj{}.str("pass", "C01").num("mode", mode).num("breadth", 2).num("long", N).num("ins_order", ins_order).raw("ops", "[]").done());
                     bad = true;
                  }
               }
            rep.count("states", N);
         }
         rep.count("traces");
      }
      vf::env::set_alloc(Alloc::Malloc);
      vf::env::arena_reset();
   }
}

int main(int argc, char** argv)
{
   opt = vf::parse_options(argc, argv);
   vf::install_crash_handler(opt, "C01");
   vf::crash_describe = describe_current;
   if (not opt.replay.empty()) {
      verbose = true;
      auto text = vf::slurp(opt.replay);
      auto ops = vf::json_int_array(text, "ops");
      int mode = int(vf::json_int(text, "mode")), breadth = int(vf::json_int(text, "breadth"));
      long long lng = vf::json_int(text, "long");
      std::printf("replay C01: %zu steps, %s, breadth %d\n", ops.size(), mode_name[mode], breadth);
      if (lng > 0) long_history(mode, int(lng), int(vf::json_int(text, "ins_order")));
      else run(std::vector<int>(ops.begin(), ops.end()), mode, breadth, true, int(vf::json_int(text, "twin")));
      for (auto& [k, v] : rep.viols) std::printf("violated: %s  (%s)\n", k.c_str(), v.what.c_str());
      return rep.viols.empty() ? 0 : 1;
   }
   const bool deep = opt.thorough();
   // 0 deviations (ascending addresses) first, then each single deviation.
   explore(deep ? 3 : 2, 1, { 0, 1, 2 });
   explore(deep ? 4 : 3, 0, { 0, 1, 2 });
   // more than one Lexicon: the compact alphabet again, with a second Lexicon in lockstep, and with a transient one after every step
   explore(deep ? 3 : 2, 0, { 3, 0 }, 1);
   explore(deep ? 3 : 2, 0, { 3, 0 }, 2);
   if (not opt.expired()) {
      int job = 0;
      for (int mode : { 0, 1, 2, 3 })
         for (int ord : { 0, 1, 2 })
            if (opt.mine(job++)) long_history(mode, deep ? 4096 : 1024, ord);
   }
   if (opt.shard == 0) {
      World w;
      rep.info("bounds", vf::JObj{}.num("full_alphabet_at_step_1", (long long) alphabet(w, 1).size()).num("compact_alphabet_at_step_1", (long long) alphabet(w, 0).size())
                            .num("depth_full", deep ? 3 : 2).num("depth_compact", deep ? 4 : 3).str("address_modes", "ascending, descending, alternating (+ malloc in long histories)")
                            .num("long_history_keys_per_family", deep ? 4096 : 1024).done());
      rep.sample(vf::JObj{}.str("history", "qualified(c, int) -> #A; qualified(v, #A) -> #B; qualified(cv, int) -> must be #B").done());
      rep.sample(vf::JObj{}.str("history", "function(P(int), int) ; function+throws+transfer(P(int), int, false, (C++,\"\")) -> same node").done());
      rep.sample(vf::JObj{}.str("history", "product(warehouse)[int char] ; product(sequence)(elements of it) -> same node").done());
   }
   rep.write(opt);
   return 0;
}
