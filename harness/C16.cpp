// C16 — substitutions behave as finite maps from parameters to expressions.
// Elementary: every (bound parameter, value, queried parameter) triple.  General: every binding sequence up to
// the bound (including rebinding), every parameter queried after every step, against std::map last-write-wins.
#include <map>
#include <memory>
#include <string>
#include <vector>

#include <ipr/impl>

#include "envctl.hpp"
#include "report.hpp"

namespace {
   vf::Report rep;
   vf::Options opt;
   bool verbose = false;

   constexpr int NP = 5, NV = 3;

   struct World {
      ipr::impl::Lexicon lex;
      ipr::impl::Translation_unit unit{ lex };
      std::vector<const ipr::Parameter*> P;
      std::vector<const ipr::Expr*> V;

      World()
      {
         auto& region = *unit.global_region();
         // two lists at the SAME nesting level (their members share level and position pairwise) and one deeper
         auto* m1 = lex.make_mapping(region, ipr::Mapping_level{ 1 });
         auto* m2 = lex.make_mapping(region, ipr::Mapping_level{ 1 });
         auto* m3 = lex.make_mapping(m2->inputs.region(), ipr::Mapping_level{ 2 });
         P.push_back(m1->param(lex.get_identifier(u8"a"), lex.int_type()));
         P.push_back(m1->param(lex.get_identifier(u8"b"), lex.int_type()));
         P.push_back(m2->param(lex.get_identifier(u8"a"), lex.int_type()));         // same name, level and position as P[0], other list
         P.push_back(m2->param(lex.get_identifier(u8"c"), lex.typename_type()));    // same level and position as P[1]
         P.push_back(m3->param(lex.get_identifier(u8"a"), lex.int_type()));         // same name and position as P[0], deeper level
         V.push_back(lex.make_literal(lex.int_type(), u8"7"));
         V.push_back(lex.make_id_expr(lex.get_identifier(u8"x")));
         V.push_back(P[1]);                                                          // a value that is itself a parameter
      }
   };

   std::string binding_text(const std::vector<int>& h)
   {
      std::string s;
      for (int b : h) s += "p" + std::to_string(b / NV) + ":=v" + std::to_string(b % NV) + " ";
      return s;
   }

   void fail(const std::string& key, const std::vector<int>& h, int q, const std::string& what, int mode)
   {
      std::vector<long long> ops(h.begin(), h.end());
      rep.violation(key, static_cast<long long>(h.size()), what + " [bindings: " + binding_text(h) + "query p" + std::to_string(q) + "]",
                    vf::JObj{}.str("pass", "C16").num("mode", mode).raw("ops", vf::jarr(ops)).num("query", q).done());
      if (verbose) std::printf("  VIOLATION %s: %s\n", key.c_str(), what.c_str());
   }

   void elementary(World& w, int p, int v)
   {
      auto* es = w.lex.make_elementary_substitution(*w.P[p], *w.V[v]);
      rep.count("transitions");
      const ipr::Substitution& s = *es;
      for (int q = 0; q < NP; ++q) {
         const ipr::Expr* got = &s[*w.P[q]];
         const ipr::Expr* want = q == p ? w.V[v] : static_cast<const ipr::Expr*>(w.P[q]);
         rep.count("transitions");
         if (got != want) {
            if (q == p) fail("C16:elementary:in-domain", { p * NV + v }, q, "applying an elementary substitution to its own parameter does not yield the bound expression", 0);
            else fail("C16:elementary:out-of-domain", { p * NV + v }, q, "applying an elementary substitution to another parameter does not yield that parameter", 0);
         }
      }
      rep.count("states");
      rep.count("traces");
   }

   // One history of General_substitution::subst calls on a fresh world.
   void general(const std::vector<int>& h)
   {
      World w;
      auto* gs = w.lex.make_general_substitution();
      const ipr::Substitution& s = *gs;
      std::map<int, int> model;
      auto query_all = [&](std::size_t upto) {
         std::vector<int> prefix(h.begin(), h.begin() + upto);
         for (int q = 0; q < NP; ++q) {
            const ipr::Expr* got = &s[*w.P[q]];
            rep.count("transitions");
            auto it = model.find(q);
            const ipr::Expr* want = it == model.end() ? static_cast<const ipr::Expr*>(w.P[q]) : w.V[it->second];
            if (got == want) continue;
            if (it == model.end()) fail("C16:general:out-of-domain", prefix, q, "a parameter outside the domain is not returned unchanged", 1);
            else {
               bool stale = false;
               for (std::size_t i = 0; i < upto; ++i)
                  if (h[i] / NV == q and got == w.V[h[i] % NV]) stale = true;
               fail(stale ? "C16:general:stale-binding" : "C16:general:in-domain", prefix, q,
                    stale ? "an earlier binding is returned instead of the latest one" : "the bound expression is not returned", 1);
            }
         }
      };
      query_all(0);
      for (std::size_t i = 0; i < h.size(); ++i) {
         auto& r = gs->subst(*w.P[h[i] / NV], *w.V[h[i] % NV]);
         rep.count("transitions");
         if (&r != gs) fail("C16:general:subst-return", { h.begin(), h.begin() + i + 1 }, 0, "subst() does not return the substitution itself", 1);
         model[h[i] / NV] = h[i] % NV;
         query_all(i + 1);
         rep.count("states");
      }
      rep.count("traces");
      std::string fin;
      for (int q = 0; q < NP; ++q) fin += model.count(q) ? char('0' + model[q]) : '-';
      rep.member("outcomes", fin);
   }

   // Histories over the alphabet {bind(p,v) : NP*NV} + {query(p) : NP}: queries and bindings interleaved in EVERY order
   // (a lookup that remembers what it answered last is only wrong for particular query/rebind orders).
   constexpr int NOPS = NP * NV + NP;
   std::string ops_text(const std::vector<int>& h)
   {
      std::string s;
      for (int o : h) s += o < NP * NV ? "p" + std::to_string(o / NV) + ":=v" + std::to_string(o % NV) + " " : "?p" + std::to_string(o - NP * NV) + " ";
      return s;
   }
   void interleaved(const std::vector<int>& h)
   {
      World w;
      auto* gs = w.lex.make_general_substitution();
      const ipr::Substitution& s = *gs;
      std::map<int, int> model;
      for (std::size_t i = 0; i < h.size(); ++i) {
         rep.count("transitions");
         if (h[i] < NP * NV) { gs->subst(*w.P[h[i] / NV], *w.V[h[i] % NV]); model[h[i] / NV] = h[i] % NV; continue; }
         const int q = h[i] - NP * NV;
         const ipr::Expr* got = &s[*w.P[q]];
         auto it = model.find(q);
         const ipr::Expr* want = it == model.end() ? static_cast<const ipr::Expr*>(w.P[q]) : w.V[it->second];
         rep.count("states");
         if (rep.samples.size() < rep.sample_cap and i + 1 == h.size() and h.size() >= 4) rep.sample(vf::JObj{}.str("operations", ops_text(h)).str("last_query_answer", it == model.end() ? "the parameter itself" : "the value bound last").done());
         if (got == want) continue;
         std::vector<long long> ops(h.begin(), h.begin() + long(i) + 1);
         bool stale = false;
         for (std::size_t k = 0; k < i; ++k) if (h[k] < NP * NV and h[k] / NV == q and got == w.V[h[k] % NV]) stale = true;
         const std::string key = it == model.end() ? "C16:general:out-of-domain" : stale ? "C16:general:stale-binding" : "C16:general:in-domain";
         rep.violation(key, (long long) i + 1, std::string(it == model.end() ? "a parameter outside the domain is not returned unchanged" : stale ? "an earlier binding is returned instead of the latest one" : "the bound expression is not returned")
                       + " [operations: " + ops_text(std::vector<int>(h.begin(), h.begin() + long(i) + 1)) + "]", vf::JObj{}.str("pass", "C16").num("mode", 2).raw("ops", vf::jarr(ops)).done());
         if (verbose) std::printf("  VIOLATION %s at step %zu of %s\n", key.c_str(), i, ops_text(h).c_str());
      }
      rep.count("traces");
   }
   void enumerate_interleaved(int depth)
   {
      long long idx = 0;
      for (int d = 2; d <= depth; ++d) {
         std::vector<int> h(std::size_t(d), 0);
         while (true) {
            // a history ending with a binding adds nothing over its prefix
            if (h.back() >= NP * NV and opt.mine(idx++)) interleaved(h);
            int i = d - 1;
            while (i >= 0 and ++h[std::size_t(i)] == NOPS) h[std::size_t(i--)] = 0;
            if (i < 0) break;
            if ((idx & 0x3fff) == 0 and opt.expired()) { rep.cap("deadline at interleaved depth " + std::to_string(d)); return; }
         }
         if (opt.shard == 0) rep.maxi("max_interleaved_depth", d);
      }
   }

   // Many elementary substitutions from ONE Lexicon (each over its own parameter), all queried again afterwards.
   void many_elementary(int n)
   {
      ipr::impl::Lexicon lex;
      ipr::impl::Translation_unit unit{ lex };
      auto* m = lex.make_mapping(*unit.global_region(), ipr::Mapping_level{ 1 });
      std::vector<const ipr::Parameter*> ps;
      std::vector<const ipr::Expr*> vs;
      std::vector<const ipr::Substitution*> ss;
      for (int i = 0; i < n; ++i) {
         ps.push_back(m->param(lex.get_identifier(std::u8string(u8"p") + char8_t('a' + i % 26) + char8_t('a' + i / 26 % 26) + char8_t('a' + i / 676 % 26)), lex.int_type()));
         vs.push_back(lex.make_literal(lex.int_type(), std::u8string(1, char8_t('0' + i % 10))));
         ss.push_back(lex.make_elementary_substitution(*ps.back(), *vs.back()));
         rep.count("transitions");
      }
      for (int i = 0; i < n; ++i) {
         rep.count("transitions", 3);
         const ipr::Substitution& sub = *ss[std::size_t(i)];
         const int other = (i + 1) % n, far = (i + 256) % n;
         if (&sub[*ps[std::size_t(i)]] != vs[std::size_t(i)]) { fail("C16:elementary:in-domain", { i % (NP * NV) }, 0, "elementary substitution #" + std::to_string(i) + " of " + std::to_string(n) + " made by one Lexicon no longer maps its parameter to its value", 0); break; }
         if (&sub[*ps[std::size_t(other)]] != static_cast<const ipr::Expr*>(ps[std::size_t(other)]) or &sub[*ps[std::size_t(far)]] != static_cast<const ipr::Expr*>(ps[std::size_t(far)])) { fail("C16:elementary:out-of-domain", { i % (NP * NV) }, 0, "elementary substitution #" + std::to_string(i) + " of " + std::to_string(n) + " rewrites a parameter outside its domain", 0); break; }
      }
      rep.count("states", n);
      rep.count("traces");
   }

   // General substitutions while OTHER Lexicons come and go: every binding sequence of length <= 3, with a second Lexicon
   // created before step i and destroyed before step j (every i <= j), and a general substitution of its own in between.
   void with_other_lexicons()
   {
      long long idx = 0;
      for (int d = 1; d <= 3; ++d) {
         std::vector<int> h(std::size_t(d), 0);
         while (true) {
            for (int born = 0; born <= d; ++born)
               for (int dies = born; dies <= d; ++dies) {
                  if (not opt.mine(idx++)) continue;
                  World w;
                  auto* gs = w.lex.make_general_substitution();
                  const ipr::Substitution& s = *gs;
                  std::unique_ptr<World> other;
                  std::map<int, int> model;
                  for (int i = 0; i <= d; ++i) {
                     if (i == born) { other = std::make_unique<World>(); other->lex.make_general_substitution()->subst(*other->P[0], *other->V[0]).subst(*other->P[1], *other->V[1]); }
                     if (i == dies) other.reset();
                     if (i == d) break;
                     gs->subst(*w.P[std::size_t(h[std::size_t(i)] / NV)], *w.V[std::size_t(h[std::size_t(i)] % NV)]);
                     model[h[std::size_t(i)] / NV] = h[std::size_t(i)] % NV;
                     rep.count("transitions");
                     for (int q = 0; q < NP; ++q) {
                        auto it = model.find(q);
                        const ipr::Expr* want = it == model.end() ? static_cast<const ipr::Expr*>(w.P[std::size_t(q)]) : w.V[std::size_t(it->second)];
                        if (&s[*w.P[std::size_t(q)]] != want) { fail(it == model.end() ? "C16:general:out-of-domain" : "C16:general:in-domain", { h.begin(), h.begin() + i + 1 }, q, "with another Lexicon created before step " + std::to_string(born) + " and destroyed before step " + std::to_string(dies) + ", a general substitution answers wrongly", 1); i = d; break; }
                     }
                     rep.count("states");
                  }
                  rep.count("traces");
               }
            int i = d - 1;
            while (i >= 0 and ++h[std::size_t(i)] == NP * NV) h[std::size_t(i--)] = 0;
            if (i < 0) break;
         }
      }
   }

   void enumerate(int depth)
   {
      std::vector<int> h;
      long long idx = 0;
      // iterative deepening: all histories of length exactly d, d = 1..depth
      for (int d = 1; d <= depth; ++d) {
         h.assign(d, 0);
         while (true) {
            if (opt.mine(idx++)) general(h);
            int i = d - 1;
            while (i >= 0 and ++h[i] == NP * NV) h[i--] = 0;
            if (i < 0) break;
            if ((idx & 0x3fff) == 0 and opt.expired()) { rep.cap("deadline at depth " + std::to_string(d)); return; }
         }
         if (opt.shard == 0) rep.maxi("max_depth", d);
      }
   }
}

int main(int argc, char** argv)
{
   opt = vf::parse_options(argc, argv);
   vf::install_crash_handler(opt, "C16");
   if (not opt.replay.empty()) {
      verbose = true;
      auto text = vf::slurp(opt.replay);
      auto ops = vf::json_int_array(text, "ops");
      std::vector<int> h(ops.begin(), ops.end());
      std::printf("replay C16: %s (mode %lld)\n", binding_text(h).c_str(), vf::json_int(text, "mode"));
      if (vf::json_int(text, "mode") == 2) { std::printf("operations: %s\n", ops_text(h).c_str()); interleaved(h); }
      else if (vf::json_int(text, "mode") == 0 and h.size() == 1) { World w; elementary(w, h[0] / NV, h[0] % NV); }
      else general(h);
      for (auto& [k, v] : rep.viols) std::printf("violated: %s  (%s)\n", k.c_str(), v.what.c_str());
      return rep.viols.empty() ? 0 : 1;
   }
   if (opt.shard == 0) {
      World w;
      for (int p = 0; p < NP; ++p)
         for (int v = 0; v < NV; ++v) elementary(w, p, v);
   }
   const int depth = opt.thorough() ? 5 : 4;
   enumerate(depth);
   enumerate_interleaved(opt.thorough() ? 6 : 5);
   with_other_lexicons();
   if (opt.shard == 1 % opt.shards) many_elementary(opt.thorough() ? 70000 : 1100);
   if (opt.shard == 0) {
      rep.info("bounds", vf::JObj{}.num("parameters", NP).num("values", NV).num("max_binding_sequence_length", depth)
                            .num("interleaved_operation_history_depth", opt.thorough() ? 6 : 5).str("parameters_from", "three parameter lists, two at the same level (members share level+position pairwise), three parameters share a name; one value is itself a parameter").done());
      rep.sample(vf::JObj{}.str("bindings", "p0:=v0 p2:=v2 p0:=v1").str("checked", "after each step, s[p] for all 4 parameters == last binding or p itself").done());
      rep.sample(vf::JObj{}.str("elementary", "p1:=v2").str("checked", "s[p1]==v2, s[q]==q for q!=p1").done());
   }
   rep.write(opt);
   return 0;
}
