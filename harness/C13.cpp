// C13 — Lexicon constants are distinct, correctly spelled, self-describing, process-wide.
// Finite configuration space, closed completely: {26 type accessors, 5 symbolic constants, 2 linkages} x
// {3 Lexicons alive at once + 1 created after they died} x all accessor pairs x all spelling->node routes.
#include <algorithm>
#include <memory>
#include <string>
#include <vector>

#include <ipr/impl>

#include "report.hpp"

namespace {
   vf::Report rep;
   vf::Options opt;
   bool verbose = false;

   using TypeAcc = const ipr::Type& (ipr::Lexicon::*)() const;
   struct TypeRow { const char* accessor; TypeAcc get; const char8_t* spelling; };
   // accessor -> documented C++ spelling (comments of ipr::Lexicon; `ushort` documented as "unsigned char" is an
   // evident typo for "unsigned short")
   const TypeRow type_rows[] = {
      { "void_type", &ipr::Lexicon::void_type, u8"void" },
      { "bool_type", &ipr::Lexicon::bool_type, u8"bool" },
      { "char_type", &ipr::Lexicon::char_type, u8"char" },
      { "schar_type", &ipr::Lexicon::schar_type, u8"signed char" },
      { "uchar_type", &ipr::Lexicon::uchar_type, u8"unsigned char" },
      { "wchar_t_type", &ipr::Lexicon::wchar_t_type, u8"wchar_t" },
      { "char8_t_type", &ipr::Lexicon::char8_t_type, u8"char8_t" },
      { "char16_t_type", &ipr::Lexicon::char16_t_type, u8"char16_t" },
      { "char32_t_type", &ipr::Lexicon::char32_t_type, u8"char32_t" },
      { "short_type", &ipr::Lexicon::short_type, u8"short" },
      { "ushort_type", &ipr::Lexicon::ushort_type, u8"unsigned short" },
      { "int_type", &ipr::Lexicon::int_type, u8"int" },
      { "uint_type", &ipr::Lexicon::uint_type, u8"unsigned int" },
      { "long_type", &ipr::Lexicon::long_type, u8"long" },
      { "ulong_type", &ipr::Lexicon::ulong_type, u8"unsigned long" },
      { "long_long_type", &ipr::Lexicon::long_long_type, u8"long long" },
      { "ulong_long_type", &ipr::Lexicon::ulong_long_type, u8"unsigned long long" },
      { "float_type", &ipr::Lexicon::float_type, u8"float" },
      { "double_type", &ipr::Lexicon::double_type, u8"double" },
      { "long_double_type", &ipr::Lexicon::long_double_type, u8"long double" },
      { "ellipsis_type", &ipr::Lexicon::ellipsis_type, u8"..." },
      { "typename_type", &ipr::Lexicon::typename_type, u8"typename" },
      { "class_type", &ipr::Lexicon::class_type, u8"class" },
      { "union_type", &ipr::Lexicon::union_type, u8"union" },
      { "enum_type", &ipr::Lexicon::enum_type, u8"enum" },
      { "namespace_type", &ipr::Lexicon::namespace_type, u8"namespace" },
   };
   constexpr int NTYPES = sizeof type_rows / sizeof type_rows[0];

   using SymAcc = const ipr::Symbol& (ipr::Lexicon::*)() const;
   struct SymRow { const char* accessor; SymAcc get; const char8_t* spelling; };
   const SymRow sym_rows[] = {
      { "false_value", &ipr::Lexicon::false_value, u8"false" },
      { "true_value", &ipr::Lexicon::true_value, u8"true" },
      { "nullptr_value", &ipr::Lexicon::nullptr_value, u8"nullptr" },
      { "default_value", &ipr::Lexicon::default_value, u8"default" },
      { "delete_value", &ipr::Lexicon::delete_value, u8"delete" },
   };
   constexpr int NSYMS = 5;

   std::string narrow(ipr::util::word_view w) { return { reinterpret_cast<const char*>(w.data()), w.size() }; }

   void fail(const std::string& key, const std::string& what, int lexicon, int a, int b = -1)
   {
      rep.violation(key, lexicon, what + " (lexicon #" + std::to_string(lexicon) + ")",
                    vf::JObj{}.str("pass", "C13").raw("ops", vf::jarr(std::vector<long long>{ lexicon, a, b })).done());
      if (verbose) std::printf("  VIOLATION %s: %s\n", key.c_str(), what.c_str());
   }

   const ipr::Identifier* spelled(const ipr::Name& n, const char8_t* spelling)
   {
      auto id = ipr::util::view<ipr::Identifier>(n);
      if (id == nullptr or id->string().characters() != spelling) return nullptr;
      return id;
   }

   struct Snapshot {
      std::vector<const ipr::Type*> types;
      std::vector<const ipr::Symbol*> syms;
      const ipr::Linkage* c = nullptr;
      const ipr::Linkage* cxx = nullptr;
      const ipr::Type* default_type = nullptr;
   };

   Snapshot examine(ipr::impl::Lexicon& lex, int L)
   {
      Snapshot s;
      const ipr::Lexicon& ilex = lex;
      for (int i = 0; i < NTYPES; ++i) {
         auto& row = type_rows[i];
         const ipr::Type& t = (ilex.*row.get)();
         s.types.push_back(&t);
         rep.count("states");
         rep.count("transitions", 8);
         const std::string acc = row.accessor;
         if (spelled(t.name(), row.spelling) == nullptr)
            fail("C13:spelling:" + acc, acc + "() does not name itself '" + narrow(row.spelling) + "'", L, i);
         auto as = ipr::util::view<ipr::As_type>(t);
         if (as == nullptr or not ipr::denote_builtin_type(*as))
            fail("C13:not-self-denoting:" + acc, acc + "() is not its own underlying expression", L, i);
         if (&t.type() != &ilex.typename_type())
            fail("C13:type-not-typename:" + acc, acc + "() does not have type typename", L, i);
         if (not(t.transfer() == ipr::impl::cxx_transfer()) or not(t.linkage() == ilex.cxx_linkage())
             or t.transfer().convention().name().what().size() != 0)
            fail("C13:transfer:" + acc, acc + "() does not have the natural C++ transfer", L, i);
         // routes: identifier -> as-type, through both get_identifier overloads
         const ipr::Identifier& id1 = lex.get_identifier(ipr::util::word_view(row.spelling));
         const ipr::Identifier& id2 = lex.get_identifier(lex.get_string(row.spelling));
         if (&lex.get_as_type(id1) != as or &lex.get_as_type(id2) != as)
            fail("C13:route:identifier-to-type:" + acc, "get_as_type(get_identifier(\"" + narrow(row.spelling) + "\")) is not " + acc + "() but a look-alike", L, i);
         // asking twice is stable
         if (&(ilex.*row.get)() != &t) fail("C13:unstable:" + acc, acc + "() returned two different nodes", L, i);
      }
      for (int i = 0; i < NTYPES; ++i)
         for (int j = i + 1; j < NTYPES; ++j) {
            rep.count("transitions");
            rep.count("pairs");
            if (s.types[i] == s.types[j])
               fail(std::string("C13:not-distinct:") + type_rows[i].accessor + ":" + type_rows[j].accessor,
                    std::string(type_rows[i].accessor) + "() and " + type_rows[j].accessor + "() are the same node", L, i, j);
         }
      for (int i = 0; i < NSYMS; ++i) {
         auto& row = sym_rows[i];
         const ipr::Symbol& v = (ilex.*row.get)();
         s.syms.push_back(&v);
         rep.count("states");
         rep.count("transitions", 4);
         const std::string acc = row.accessor;
         if (spelled(v.name(), row.spelling) == nullptr)
            fail("C13:spelling:" + acc, acc + "() is not named '" + narrow(row.spelling) + "'", L, 100 + i);
         if (&(ilex.*row.get)() != &v) fail("C13:unstable:" + acc, acc + "() returned two different nodes", L, 100 + i);
      }
      for (int i = 0; i < NSYMS; ++i)
         for (int j = i + 1; j < NSYMS; ++j) {
            rep.count("pairs");
            if (s.syms[i] == s.syms[j])
               fail(std::string("C13:not-distinct:") + sym_rows[i].accessor + ":" + sym_rows[j].accessor, "two symbolic constants are the same node", L, 100 + i, 100 + j);
         }
      // typing of the constants
      if (&ilex.false_value().type() != &ilex.bool_type()) fail("C13:type:false_value", "false is not of type bool", L, 100);
      if (&ilex.true_value().type() != &ilex.bool_type()) fail("C13:type:true_value", "true is not of type bool", L, 101);
      {
         auto dt = ipr::util::view<ipr::Decltype>(ilex.nullptr_value().type());
         if (dt == nullptr or &dt->expr() != static_cast<const ipr::Expr*>(&ilex.nullptr_value()))
            fail("C13:type:nullptr_value", "nullptr is not of type decltype(nullptr)", L, 102);
         else if (&lex.get_decltype(ilex.nullptr_value()) != dt)
            fail("C13:route:expression-to-decltype", "get_decltype(nullptr_value()) is not the type of nullptr", L, 102);
         rep.count("transitions", 2);
      }
      {
         const ipr::Type& dt = ilex.default_value().type();
         s.default_type = &dt;
         auto as = ipr::util::view<ipr::As_type>(dt);
         if (as == nullptr or not ipr::denote_builtin_type(*as))
            fail("C13:type:default_value", "the type of default is not a built-in", L, 103);
      }
      if (&ilex.delete_value().type() != &ilex.void_type()) fail("C13:type:delete_value", "delete is not of type void", L, 104);
      // label route
      {
         const ipr::Symbol& l1 = lex.get_label(lex.get_identifier(ipr::util::word_view(u8"default")));
         const ipr::Symbol& l2 = lex.get_label(lex.get_identifier(lex.get_string(u8"default")));
         rep.count("transitions", 2);
         if (&l1 != &ilex.default_value() or &l2 != &ilex.default_value())
            fail("C13:route:identifier-to-label", "get_label(get_identifier(\"default\")) is not default_value() but a look-alike", L, 103);
      }
      // linkages
      s.c = &ilex.c_linkage();
      s.cxx = &ilex.cxx_linkage();
      rep.count("states", 2);
      if (s.c == s.cxx or *s.c == *s.cxx) fail("C13:not-distinct:linkages", "the C and C++ linkages are not distinct", L, 200, 201);
      if (s.c->language().what().characters() != u8"C") fail("C13:spelling:c_linkage", "c_linkage() is not spelled \"C\"", L, 200);
      if (s.cxx->language().what().characters() != u8"C++") fail("C13:spelling:cxx_linkage", "cxx_linkage() is not spelled \"C++\"", L, 201);
      if (&lex.get_linkage(ipr::util::word_view(u8"C")) != s.c or &lex.get_linkage(lex.get_string(u8"C")) != s.c)
         fail("C13:route:word-to-linkage:C", "get_linkage(\"C\") is not c_linkage()", L, 200);
      if (&lex.get_linkage(ipr::util::word_view(u8"C++")) != s.cxx or &lex.get_linkage(lex.get_string(u8"C++")) != s.cxx)
         fail("C13:route:word-to-linkage:C++", "get_linkage(\"C++\") is not cxx_linkage()", L, 201);
      if (&ipr::impl::cxx_linkage() != s.cxx or &ipr::impl::c_linkage() != s.c)
         fail("C13:linkage-free-functions", "impl::c_linkage()/cxx_linkage() differ from the Lexicon's", L, 200);
      rep.count("transitions", 8);
      rep.count("traces");
      return s;
   }

   void same(const Snapshot& a, const Snapshot& b, int L)
   {
      for (int i = 0; i < NTYPES; ++i)
         if (a.types[i] != b.types[i]) fail(std::string("C13:per-lexicon:") + type_rows[i].accessor, std::string(type_rows[i].accessor) + "() differs between two Lexicons", L, i);
      for (int i = 0; i < NSYMS; ++i)
         if (a.syms[i] != b.syms[i]) fail(std::string("C13:per-lexicon:") + sym_rows[i].accessor, std::string(sym_rows[i].accessor) + "() differs between two Lexicons", L, 100 + i);
      if (a.c != b.c or a.cxx != b.cxx) fail("C13:per-lexicon:linkages", "standard linkages differ between two Lexicons", L, 200);
      if (a.default_type != b.default_type) fail("C13:per-lexicon:default-type", "the type of default differs between two Lexicons", L, 103);
      rep.count("transitions", NTYPES + NSYMS + 3);
   }

   // Requests that could plant look-alikes: every factory keyed on a spelling or on a constant is asked for the
   // constants' spellings with OTHER arguments, and for near misses, before the routes are examined.
   void hostile_history(ipr::impl::Lexicon& lex)
   {
      const ipr::Lexicon& ilex = lex;
      for (auto w : { u8"true", u8"false", u8"nullptr", u8"default", u8"delete", u8"int", u8"void", u8"...", u8"unsigned long long", u8"C", u8"C++" }) {
         auto& id = lex.get_identifier(ipr::util::word_view(w));
         (void) lex.get_symbol(id, ilex.double_type());
         (void) lex.get_symbol(id, lex.get_pointer(ilex.char_type()));
         (void) lex.get_literal(ilex.int_type(), ipr::util::word_view(w));
         (void) lex.get_as_type(*lex.make_id_expr(id));
         (void) lex.get_decltype(*lex.make_id_expr(id));
         (void) lex.get_logogram(lex.get_string(w));
         (void) lex.get_identifier(std::u8string(w) + u8"_");
         (void) lex.get_linkage(std::u8string(w) + u8"x");
      }
      for (auto w : { u8"Ada", u8"D", u8"c", u8"C+", u8"C++ ", u8"" }) { (void) lex.get_linkage(ipr::util::word_view(w)); (void) lex.get_linkage(lex.get_string(w)); }
      (void) lex.get_transfer(lex.get_linkage(u8"C"), lex.get_calling_convention(u8"fastcall"));
      (void) lex.get_label(lex.get_identifier(u8"true"));
      (void) lex.get_label(lex.get_identifier(u8"defaul"));
      (void) lex.get_this(ilex.int_type());
      (void) lex.get_decltype(ilex.true_value());
      rep.count("transitions", 100);
   }

   // Spelling -> node routes fed from ONE reused buffer: what was in the buffer before must not matter.
   void reused_buffer_routes(ipr::impl::Lexicon& lex, int L)
   {
      const ipr::Lexicon& ilex = lex;
      char8_t buf[32];
      auto put = [&](const char8_t* w) { std::size_t n = std::char_traits<char8_t>::length(w); std::copy(w, w + n, buf); return ipr::util::word_view(buf, n); };
      rep.count("transitions", 12);
      (void) lex.get_linkage(put(u8"Ada"));
      if (&lex.get_linkage(put(u8"C++")) != &ilex.cxx_linkage()) fail("C13:route:word-to-linkage:C++", "get_linkage of \"C++\" written into a buffer that held \"Ada\" before is not cxx_linkage()", L, 201);
      (void) lex.get_linkage(put(u8"D"));
      if (&lex.get_linkage(put(u8"C")) != &ilex.c_linkage()) fail("C13:route:word-to-linkage:C", "get_linkage of \"C\" written into a buffer that held \"D\" before is not c_linkage()", L, 200);
      (void) lex.get_identifier(put(u8"foo"));
      if (&lex.get_as_type(lex.get_identifier(put(u8"int"))) != &ilex.int_type()) fail("C13:route:identifier-to-type:int_type", "get_as_type(get_identifier(\"int\")) from a buffer that held \"foo\" before is not int_type()", L, 11);
      (void) lex.get_string(put(u8"vojd"));
      if (&lex.get_as_type(lex.get_identifier(lex.get_string(put(u8"void")))) != &ilex.void_type()) fail("C13:route:identifier-to-type:void_type", "get_as_type(get_identifier(get_string(\"void\"))) from a buffer that held \"vojd\" before is not void_type()", L, 0);
      (void) lex.get_identifier(put(u8"defaulx"));
      if (&lex.get_label(lex.get_identifier(put(u8"default"))) != &ilex.default_value()) fail("C13:route:identifier-to-label", "get_label(get_identifier(\"default\")) from a reused buffer is not default_value()", L, 103);
   }

   void run()
   {
      {
         // a Lexicon with a hostile history: the routes must still lead to the constants, before and after a second round
         ipr::impl::Lexicon h;
         hostile_history(h);
         Snapshot a = examine(h, 4);
         reused_buffer_routes(h, 4);
         hostile_history(h);
         Snapshot b = examine(h, 4);
         same(a, b, 4);
         ipr::impl::Lexicon fresh;
         reused_buffer_routes(fresh, 5);
         same(a, examine(fresh, 5), 5);
      }
      Snapshot s0, s1, s2, s3;
      {
         auto l0 = std::make_unique<ipr::impl::Lexicon>();
         auto l1 = std::make_unique<ipr::impl::Lexicon>();
         auto l2 = std::make_unique<ipr::impl::Lexicon>();
         // some unrelated work in l1 first: the constants must not depend on what was built
         for (int i = 0; i < 100; ++i) (void) l1->get_pointer(l1->get_identifier(std::u8string(1, char8_t('a' + i % 26))).string().size() % 2 ? l1->int_type() : l1->char_type());
         s0 = examine(*l0, 0);
         s1 = examine(*l1, 1);
         s2 = examine(*l2, 2);
         same(s0, s1, 1);
         same(s0, s2, 2);
      }
      ipr::impl::Lexicon late;
      s3 = examine(late, 3);
      same(s0, s3, 3);
   }
}

int main(int argc, char** argv)
{
   opt = vf::parse_options(argc, argv);
   vf::install_crash_handler(opt, "C13");
   verbose = not opt.replay.empty();
   if (verbose) std::printf("replay C13: the whole (finite) configuration space is re-run\n");
   run();
   if (verbose) {
      for (auto& [k, v] : rep.viols) std::printf("violated: %s  (%s)\n", k.c_str(), v.what.c_str());
      return rep.viols.empty() ? 0 : 1;
   }
   rep.count("distinct_nontrivial", NTYPES + NSYMS + 2);
   rep.info("space", vf::JObj{}.num("type_accessors", NTYPES).num("symbolic_constants", NSYMS).num("linkages", 2)
                        .num("lexicons", 6).num("accessor_pairs_per_lexicon", NTYPES * (NTYPES - 1) / 2 + 10).done());
   rep.sample(vf::JObj{}.str("accessor", "ushort_type").str("spelling", "unsigned short").str("checked", "name, self-denoting, typename, natural transfer, distinct from 25 others, same node in 4 Lexicons, get_as_type(get_identifier(spelling)) is it").done());
   rep.sample(vf::JObj{}.str("accessor", "default_value").str("checked", "named 'default', typed by a built-in, get_label(get_identifier(\"default\")) is it").done());
   rep.write(opt);
   return 0;
}
