// C05 — node identity is stable: nodes never move, never silently change, never alias.
// Pass A (zoo): every entry of the factory table (and the implementation classes no factory returns) is built on a
//   Lexicon and fingerprinted through EVERY accessor of its interface (nodes named by creation index, never by address);
//   then the whole table is built again, in units of their own on the same Lexicon, under every other operand rotation
//   (so each factory is asked for the same and for colliding keys with different operands), and every fingerprint is
//   recomputed: it must be byte-identical.
// Pass B (histories): EVERY history up to a depth bound over an alphabet with one representative per storage
//   mechanism (farm, tree, string pool, unified literal, symbol keyed on name+type, deque-backed enumerators, list
//   backed parameters / bases / handlers / units / tokens / captures / designators, pointer vectors of scopes and
//   expression lists, warehouse-built product with the warehouse destroyed and scribbled, sub-region, declaration and
//   redeclaration).  After EVERY step every node returned so far is re-observed: identical, except that a container
//   the step explicitly added to may have grown at its end (checked against a model vector of member addresses);
//   every generative constructor must return an address different from every other live node.
// Pass C (growth): for each member-sequence kind and farm/tree/pool, K additions interleaved with unrelated factory
//   calls; first, middle and last members are re-observed at every checkpoint 2^k-1, 2^k, 2^k+1.
// Built twice: -O2 (all passes, deeper) and ASan+UBSan (stale reference into relocated or freed storage aborts).
#include <cstring>
#include <memory>
#include <set>

#include "zoo/zoo.hpp"
#include "envctl.hpp"

namespace zoo { std::string observe(Ctx&, const ipr::Node&); }

namespace {
   vf::Report rep;
   vf::Options opt;
   bool verbose = false;
   bool asan = false;
   std::string current = "";
   void describe_current(char* buf, std::size_t n) { std::snprintf(buf, n, "\"pass\":\"C05\",\"ops\":[],\"state\":%s", vf::jstr(current).c_str()); }

   // ---- fingerprint relations -------------------------------------------------------------------------------
   std::vector<std::string> fields_of(const std::string& fp)
   {
      std::vector<std::string> f;
      std::size_t p = 0;
      while (p < fp.size()) { auto q = fp.find(';', p); if (q == std::string::npos) q = fp.size(); f.push_back(fp.substr(p, q - p)); p = q + 1; }
      return f;
   }
   // "[n:a,b,c,]" -> (n, elements shown)
   bool parse_seq(const std::string& v, long& n, std::vector<std::string>& elems)
   {
      if (v.size() < 3 or v[0] != '[') return false;
      char* end = nullptr;
      n = std::strtol(v.c_str() + 1, &end, 10);
      if (end == nullptr or *end != ':') return false;
      std::string rest(end + 1);
      std::size_t p = 0;
      while (p < rest.size() and rest[p] != ']') { auto q = rest.find(',', p); if (q == std::string::npos) break; elems.push_back(rest.substr(p, q - p)); p = q + 1; }
      return true;
   }
   // A container the client explicitly added to: every field equal, or a sequence that kept its old members as a prefix,
   // or a count that grew, or try_block turning true with the first handler.  Returns "" when `now` is such an extension.
   std::string not_an_extension(const std::string& before, const std::string& now)
   {
      auto a = fields_of(before), b = fields_of(now);
      if (a.size() != b.size()) return "the number of accessor results changed";
      for (std::size_t i = 0; i < a.size(); ++i) {
         if (a[i] == b[i]) continue;
         auto ea = a[i].find('='), eb = b[i].find('=');
         if (ea == std::string::npos or eb == std::string::npos or a[i].substr(0, ea) != b[i].substr(0, eb)) return "accessor list changed at '" + a[i] + "'";
         const std::string name = a[i].substr(0, ea), va = a[i].substr(ea + 1), vb = b[i].substr(eb + 1);
         long na = 0, nb = 0;
         std::vector<std::string> xa, xb;
         if (parse_seq(va, na, xa) and parse_seq(vb, nb, xb)) {
            if (nb < na) return name + " shrank from " + std::to_string(na) + " to " + std::to_string(nb);
            bool prefix = true;
            const std::size_t shown = std::min<std::size_t>(std::size_t(std::min(na, 6L)), std::min(xa.size(), xb.size()));
            for (std::size_t k = 0; k < shown; ++k) prefix = prefix and xa[k] == xb[k];
            if (not prefix) return name + " no longer starts with its earlier members: " + va + " -> " + vb;
            continue;
         }
         if (name == "size" and std::atol(vb.c_str()) > std::atol(va.c_str())) continue;
         if (name == "try_block" and va == "F" and vb == "T") continue;
         if (name == "[size]") continue;          // Product/Sum probe one past the end
         if (name[0] == '[' and va == "-") continue;   // a name (and type) that selected nothing before the step now selects the new member
         return name + " changed: " + va + " -> " + vb;
      }
      return "";
   }

   // ================================= Pass A: the zoo =========================================================
   void zoo_pass(int rot, int disturbances)
   {
      using namespace zoo;
      current = "zoo rotation " + std::to_string(rot);
      // heap-address personality (the sanitizer build keeps malloc, so that its heap checks stay in force)
      if (not asan) vf::env::set_alloc(vf::env::Alloc(rot % 4));
      struct Reset { ~Reset() { vf::env::set_alloc(vf::env::Alloc::Malloc); vf::env::arena_reset(); } } reset;
      ipr::impl::Lexicon lex;
      ipr::impl::Translation_unit unit{ lex };
      Ctx c{ lex, unit };
      c.rot = rot;
      c.prop = "";
      build_all(c);
      const std::size_t n = c.entries.size();
      std::vector<std::string> fp(n);
      for (std::size_t i = 0; i < n; ++i) if (c.entries[i].observe) { fp[i] = c.entries[i].observe(c); rep.count("transitions"); }
      // generative rows: pairwise distinct addresses
      {
         std::map<const ipr::Node*, std::size_t> seen;
         for (std::size_t i = 0; i < n; ++i) {
            auto& e = c.entries[i];
            if (e.node == nullptr or not e.generative) continue;
            auto [it, fresh] = seen.insert({ e.node, i });
            if (not fresh)
               rep.violation("C05:alias:" + e.iface, (long long) i, "generative constructor of row " + e.row + " returned the node already returned for row " + c.entries[it->second].row,
                             vf::JObj{}.str("pass", "C05").str("family", "zoo").raw("ops", vf::jarr(std::vector<long long>{ rot })).done());
         }
      }
      std::vector<std::unique_ptr<ipr::impl::Translation_unit>> units;
      std::vector<std::unique_ptr<Ctx>> ctxs;
      int done = 0;
      for (int r2 = 0; r2 < 12 and done < disturbances; ++r2) {
         if (r2 == rot) continue;
         units.push_back(std::make_unique<ipr::impl::Translation_unit>(lex));
         ctxs.push_back(std::make_unique<Ctx>(lex, *units.back()));
         ctxs.back()->rot = r2;
         ctxs.back()->prop = "";
         build_all(*ctxs.back());
         ++done;
         // re-observe after every disturbing table (quick: only after the last one)
         if (done != disturbances and not opt.thorough()) continue;
         for (std::size_t i = 0; i < n; ++i) {
            auto& e = c.entries[i];
            if (not e.observe) continue;
            current = "zoo rotation " + std::to_string(rot) + ", re-observing " + e.row + " after disturbing rotation " + std::to_string(r2);
            std::string now = e.observe(c);
            rep.count("transitions");
            if (now != fp[i]) {
               std::string why = not_an_extension(fp[i], now);
               rep.violation("C05:changed:" + e.row, (long long) i, "the " + e.iface + " built by row " + e.row + " reads differently after the factory table was built again with other operands in another unit: "
                             + (why.empty() ? "a sequence grew although nothing was added to it" : why),
                             vf::JObj{}.str("pass", "C05").str("family", "zoo").raw("ops", vf::jarr(std::vector<long long>{ rot, r2 })).str("row", e.row).done());
               if (verbose) std::printf("  CHANGED %s\n     before: %s\n     now:    %s\n", e.row.c_str(), fp[i].c_str(), now.c_str());
            }
         }
      }
      rep.count("states", (long long) n);
      rep.count("traces");
   }

   // ================================= Pass B: histories =========================================================
   enum Op { Farm, Tree, Ident, Literal, Symbol, Label, Enumerator, Parameter, Base, Handler, ModuleUnit, PragmaToken, CaptureOp, Designator, ScopeMember, Redeclare,
             ExprListMember, WarehouseProduct, Subregion, ClassField, BlockStmt, BindingId, OtherLexiconDies, OtherLexiconStays, NOPS };
   const char* op_name[] = { "make_plus", "get_pointer", "get_identifier", "get_literal", "get_symbol", "get_label", "enum.add_member", "mapping.param", "class.declare_base", "block.new_handler",
                             "module.make_unit", "pragma.tokens.push_back", "closure.captures.push_back", "using.seq.push_back", "region.declare_var(fresh)", "region.declare_var(x,int) again",
                             "expr_list.push_back", "get_product+get_sum(warehouse);destroy+scribble", "make_subregion+declare", "class.declare_field", "block.add_stmt", "structured_binding.ids.push_back",
                             "another Lexicon builds and prints a graph of its own, and dies", "another Lexicon builds and prints a graph of its own, and stays" };

   struct Snap {
      std::string label;
      const ipr::Node* node = nullptr;                       // null for non-node artefacts
      std::function<std::string()> custom;                   // observation of a non-node artefact
      const void* address = nullptr;                         // identity (interface pointer as handed out)
      std::string fp;
      bool generative = false;
   };

   struct World {
      ipr::impl::Lexicon lex;
      ipr::impl::Translation_unit unit{ lex };
      zoo::Ctx ctx{ lex, unit };
      std::unique_ptr<ipr::impl::Module> module;
      std::vector<std::unique_ptr<vf::prelude_detail::Decoy>> others;      // (declared before the members below: destroyed after them is irrelevant, they share nothing)
      ipr::impl::Region* R;
      ipr::impl::Enum* E;
      ipr::impl::Class* C;
      ipr::impl::Mapping* M;
      ipr::impl::Block* B;
      ipr::impl::Pragma* PR;
      ipr::impl::Closure* CL;
      ipr::impl::Using_declaration* U;
      ipr::impl::Expr_list* XL;
      ipr::impl::Structured_binding* SB;
      const ipr::Type* tower;
      std::vector<Snap> snaps;
      std::map<std::string, int> index;                      // label -> snapshot
      std::vector<const ipr::Node*> model_enum, model_param, model_base, model_handler, model_scope, model_xl, model_field, model_stmt, model_ids;
      std::vector<const void*> model_units, model_tokens, model_caps, model_desigs;
      std::vector<int> decls_of_x;                           // snapshots of the declarations of (x, int)
      int counter = 0;
      std::vector<std::string> errors;                       // key \t what

      World()
      {
         ctx.prop = "";
         module = std::make_unique<ipr::impl::Module>(lex);
         R = unit.global_region()->make_subregion();
         E = lex.make_enum(*R, ipr::Enum::Kind::Scoped); E->id = &lex.get_identifier(u8"E");
         C = lex.make_class(*R); C->id = &lex.get_identifier(u8"K");
         M = lex.make_mapping(*R, ipr::Mapping_level{ 1 });
         B = lex.make_block(*R);
         PR = lex.make_pragma();
         CL = lex.make_closure(*R);
         U = lex.make_using_declaration();
         XL = lex.make_expr_list();
         SB = lex.make_structured_binding();
         tower = &lex.int_type();
         add_node("R", *R, false); add_node("R.scope", static_cast<const ipr::Region&>(*R).bindings(), false);
         add_node("E", *E, false); add_node("C", *C, false); add_node("M", *M, false); add_node("M.parameters", static_cast<const ipr::Mapping&>(*M).parameters(), false); add_node("M.scope", static_cast<const ipr::Mapping&>(*M).parameters().region().bindings(), false);
         add_node("B", *B, false); add_node("PR", *PR, false); add_node("CL", *CL, false); add_node("U", *U, false); add_node("XL", *XL, false); add_node("SB", *SB, false);
         ipr::impl::Module* mod = module.get();
         add_custom("MODULE", static_cast<const ipr::Module*>(mod), [mod, this] {
            const ipr::Module& m = *mod;
            // like every sequence rendering: size, the first six members and the last one (the model vector covers the rest)
            auto& us = m.implementation_units();
            const std::size_t n = us.size();
            std::string s = "units=[" + std::to_string(n) + ":";
            for (std::size_t k = 0; k < n and k < 6; ++k) s += ctx.namer.of(static_cast<const void*>(&*us.position(k))) + ",";
            if (n > 6) s += ".." + ctx.namer.of(static_cast<const void*>(&*us.position(n - 1)));
            return s + "];interface=" + (&m.interface_unit().parent_module() == &m ? "self" : "other") + ";";
         });
         refresh_all();
      }

      std::u8string word(const char8_t* stem) { return std::u8string(stem) + char8_t('a' + counter % 26) + char8_t('a' + counter / 26 % 26) + char8_t('a' + counter / 676 % 26) + char8_t('a' + counter / 17576 % 26); }

      int add_node(const std::string& label, const ipr::Node& n, bool generative)
      {
         Snap s;
         s.label = label; s.node = &n; s.address = &n; s.generative = generative;
         ctx.namer.names.insert({ static_cast<const void*>(&n), "s" + std::to_string(snaps.size()) + ":" + label });
         snaps.push_back(std::move(s));
         index[label] = int(snaps.size()) - 1;
         return int(snaps.size()) - 1;
      }
      int add_custom(const std::string& label, const void* address, std::function<std::string()> obs)
      {
         Snap s;
         s.label = label; s.custom = std::move(obs); s.address = address; s.generative = true;
         ctx.namer.names.insert({ address, "s" + std::to_string(snaps.size()) + ":" + label });
         snaps.push_back(std::move(s));
         index[label] = int(snaps.size()) - 1;
         return int(snaps.size()) - 1;
      }
      std::string observe(const Snap& s)
      {
         rep.count("transitions");
         if (s.node) return zoo::observe(ctx, *s.node);
         try { return s.custom(); } catch (const std::logic_error&) { return "!L"; }
      }
      void refresh_all() { for (auto& s : snaps) s.fp = observe(s); }

      void err(const std::string& key, const std::string& what) { errors.push_back(key + "\t" + what); }

      // a new node from a generative constructor must not coincide with any node handed out so far
      void must_be_fresh(const ipr::Node& n, const char* opname)
      {
         for (auto& s : snaps) if (s.node == &n) { err(std::string("C05:alias:") + opname, std::string("the generative constructor ") + opname + " returned the address of the live node " + s.label); return; }
      }

      template<class Seq>
      void check_members(const char* what, const Seq& seq, const std::vector<const ipr::Node*>& model)
      {
         rep.count("transitions");
         if (seq.size() != model.size()) { err(std::string("C05:members:") + what + ":size", std::string(what) + " has " + std::to_string(seq.size()) + " members, " + std::to_string(model.size()) + " were added"); return; }
         std::size_t i = 0;
         for (auto& m : seq) { if (static_cast<const ipr::Node*>(&m) != model[i]) { err(std::string("C05:members:") + what + ":moved", "member #" + std::to_string(i) + " of " + what + " is no longer at the address returned when it was added"); return; } ++i; }
      }
      template<class Seq>
      void check_artefacts(const char* what, const Seq& seq, const std::vector<const void*>& model)
      {
         rep.count("transitions");
         if (seq.size() != model.size()) { err(std::string("C05:members:") + what + ":size", std::string(what) + " has " + std::to_string(seq.size()) + " members, " + std::to_string(model.size()) + " were added"); return; }
         std::size_t i = 0;
         for (auto& m : seq) { if (static_cast<const void*>(&m) != model[i]) { err(std::string("C05:members:") + what + ":moved", "member #" + std::to_string(i) + " of " + what + " is no longer at the address returned when it was added"); return; } ++i; }
      }

      // Apply one operation; returns the labels of the snapshots that the operation is allowed to extend.
      std::vector<std::string> apply(int op)
      {
         ++counter;
         std::vector<std::string> dirty;
         const std::string tag = std::to_string(snaps.size());
         switch (op) {
         case Farm: { auto* n = lex.make_plus(ctx.E(0), ctx.E(1)); must_be_fresh(*n, op_name[op]); add_node("plus" + tag, *n, true); break; }
         case Tree: { auto& p = lex.get_pointer(*tower); tower = &p; if (not index.count("ptr@" + std::to_string(std::size_t(counter)))) add_node("ptr" + tag, p, false); break; }
         case Ident: { auto& i = lex.get_identifier(word(u8"id")); add_node("id" + tag, i, false); add_node("id" + tag + ".string", i.string(), false); break; }
         case Literal: { auto& l = lex.get_literal(counter % 2 ? lex.int_type() : lex.char_type(), counter % 3 ? u8"7" : u8"8"); add_node("lit" + tag, l, false); break; }
         case Symbol: { auto& s = lex.get_symbol(lex.get_identifier(u8"sym"), counter % 2 ? lex.int_type() : counter % 4 ? lex.char_type() : lex.double_type()); add_node("sym" + tag, s, false); break; }
         case Label: { auto& s = lex.get_label(lex.get_identifier(counter % 3 ? u8"sym" : u8"other")); add_node("label" + tag, s, false); break; }
         case Enumerator: { auto* m = E->add_member(lex.get_identifier(word(u8"e"))); must_be_fresh(*m, op_name[op]); model_enum.push_back(m); add_node("enumerator" + tag, *m, true); dirty = { "E" }; break; }
         case Parameter: { auto* p = M->param(model_param.size() % 3 == 1 ? static_cast<const ipr::Name&>(*ctx.nm[0]) : static_cast<const ipr::Name&>(lex.get_identifier(word(u8"p"))), lex.int_type()); must_be_fresh(*p, op_name[op]); model_param.push_back(p); add_node("param" + tag, *p, true); dirty = { "M", "M.parameters", "M.scope" }; break; }
         case Base: { auto* b = C->declare_base(counter % 2 ? lex.int_type() : lex.char_type()); must_be_fresh(*b, op_name[op]); model_base.push_back(b); add_node("base" + tag, *b, true); dirty = { "C" }; break; }
         case Handler: {
            auto* h = B->new_handler(lex.get_identifier(word(u8"h")), lex.int_type());
            must_be_fresh(*h, op_name[op]);
            model_handler.push_back(h);
            add_node("handler" + tag, *h, true);
            add_node("handler" + tag + ".exception", static_cast<const ipr::Handler&>(*h).exception(), true);
            add_node("handler" + tag + ".body", static_cast<const ipr::Handler&>(*h).body(), true);
            dirty = { "B" };
            break;
         }
         case ModuleUnit: {
            auto* u = module->make_unit();
            const ipr::Module_unit* iu = u;
            model_units.push_back(iu);
            ipr::impl::Module* mod = module.get();
            add_custom("unit" + tag, iu, [iu, mod] { return std::string("parent=") + (&iu->parent_module() == static_cast<const ipr::Module*>(mod) ? "MODULE" : "other") + ";global-unnamed=" + (iu->global_namespace().name().category == ipr::Category_code::Identifier ? "T" : "F") + ";"; });
            dirty = { "MODULE" };
            break;
         }
         case PragmaToken: {
            auto* t = PR->tokens.push_back(lex.get_string(word(u8"tok")), ipr::Source_location{ ipr::Line_number{ std::uint32_t(counter) }, ipr::Column_number{ 2 }, ipr::File_index{ 1 } }, ipr::TokenValue(counter), ipr::TokenCategory(3));
            const ipr::Token* it = t;
            model_tokens.push_back(it);
            add_custom("token" + tag, it, [it, this] { return "spelling=" + ctx.namer.of(static_cast<const void*>(static_cast<const ipr::Node*>(&it->lexeme().spelling()))) + ";line=" + std::to_string(unsigned(it->lexeme().locus().line)) + ";value=" + std::to_string(int(it->value())) + ";category=" + std::to_string(int(it->category())) + ";"; });
            dirty = { "PR" };
            break;
         }
         case CaptureOp: {
            auto* cp = CL->captures.push_back(ctx.D(counter % 2), counter % 2 ? ipr::Binding_mode::Copy : ipr::Binding_mode::Reference);
            const ipr::Capture* ic = cp;
            model_caps.push_back(ic);
            add_custom("capture" + tag, ic, [ic, this] { return "entity=" + ctx.namer.of(static_cast<const void*>(static_cast<const ipr::Node*>(&ic->entity()))) + ";mode=" + std::to_string(int(ic->mode())) + ";"; });
            dirty = { "CL" };
            break;
         }
         case Designator: {
            auto* d = U->seq.push_back(*ctx.sr[counter % 2], counter % 2 ? ipr::Using_declaration::Designator::Mode::Normal : ipr::Using_declaration::Designator::Mode::Type);
            const ipr::Using_declaration::Designator* id = d;
            model_desigs.push_back(id);
            add_custom("designator" + tag, id, [id, this] { return "path=" + ctx.namer.of(static_cast<const void*>(static_cast<const ipr::Node*>(&id->path()))) + ";mode=" + std::to_string(int(id->mode())) + ";"; });
            dirty = { "U" };
            break;
         }
         case ScopeMember: { auto* v = R->declare_var(lex.get_identifier(word(u8"v")), lex.int_type()); must_be_fresh(*v, op_name[op]); model_scope.push_back(v); add_node("var" + tag, *v, true); dirty = { "R", "R.scope" }; break; }
         case Redeclare: {
            auto* v = R->declare_var(lex.get_identifier(u8"x"), lex.int_type());
            must_be_fresh(*v, op_name[op]);
            model_scope.push_back(v);
            dirty = { "R", "R.scope" };
            for (int k : decls_of_x) dirty.push_back(snaps[k].label);
            decls_of_x.push_back(add_node("x" + tag, *v, true));
            break;
         }
         case ExprListMember: { auto* e = lex.make_literal(lex.int_type(), u8"5"); XL->push_back(e); model_xl.push_back(e); dirty = { "XL" }; break; }
         case WarehouseProduct: {
            const ipr::Product* p = nullptr;
            const ipr::Sum* sm = nullptr;
            std::size_t bytes = 0;
            {
               ipr::impl::Warehouse<ipr::Type> w;
               const int len = counter % 4;
               for (int i = 0; i < len; ++i) w.push_back(i % 2 ? lex.int_type() : static_cast<const ipr::Type&>(*tower));
               p = &lex.get_product(w);
               sm = &lex.get_sum(w);
               bytes = sizeof(void*) * std::size_t(len ? len : 1);
            }
            // the warehouse is gone: reuse and scribble storage of the same size classes
            for (std::size_t sz : { bytes, std::size_t(8), std::size_t(16), std::size_t(24), std::size_t(32), std::size_t(64) }) {
               std::vector<char*> blocks;
               for (int k = 0; k < 4; ++k) { blocks.push_back(new char[sz]); std::memset(blocks.back(), 0xAB, sz); }
               for (auto b : blocks) delete[] b;
            }
            add_node("product" + tag, *p, false);
            add_node("sum" + tag, *sm, false);
            break;
         }
         case Subregion: { auto* r = R->make_subregion(); auto* v = r->declare_var(lex.get_identifier(u8"x"), lex.int_type()); must_be_fresh(*r, op_name[op]); add_node("subregion" + tag, *r, true); add_node("subvar" + tag, *v, true); break; }
         case ClassField: { auto* f = C->declare_field(lex.get_identifier(word(u8"f")), lex.int_type()); must_be_fresh(*f, op_name[op]); model_field.push_back(f); add_node("field" + tag, *f, true); dirty = { "C" }; break; }
         case BlockStmt: { auto* s = lex.make_expr_stmt(ctx.E(0)); must_be_fresh(*s, op_name[op]); B->add_stmt(*s); model_stmt.push_back(s); add_node("stmt" + tag, *s, true); dirty = { "B" }; break; }
         // nothing this Lexicon handed out may change because ANOTHER Lexicon was used (the decoy program of engine/prelude.hpp: every kind of
         // construction, lookups, substitutions, printing), whether that one is destroyed at once or stays
         case OtherLexiconDies: { vf::prelude_detail::Decoy d{ vf::prelude_detail::ALL }; dirty = { }; break; }
         case OtherLexiconStays: { others.push_back(std::make_unique<vf::prelude_detail::Decoy>(vf::prelude_detail::ALL)); dirty = { }; break; }
         case BindingId: { auto& i = lex.get_identifier(word(u8"b")); SB->ids.push_back(&i); model_ids.push_back(&i); dirty = { "SB" }; break; }
         }
         return dirty;
      }

      // Everything handed out so far, re-read.  `dirty` may have been extended by the step, `born` snapshots are new.
      void reobserve(const std::vector<std::string>& dirty, std::size_t born_from, const char* opname)
      {
         for (std::size_t i = 0; i < snaps.size(); ++i) {
            Snap& s = snaps[i];
            std::string now = observe(s);
            if (i >= born_from) { s.fp = now; continue; }
            if (now == s.fp) continue;
            const bool is_dirty = std::find(dirty.begin(), dirty.end(), s.label) != dirty.end();
            std::string kind = s.label.substr(0, s.label.find_first_of("0123456789"));
            if (not is_dirty) err("C05:changed:" + kind + ":by:" + opname, "what " + s.label + " reports changed although the step (" + opname + ") did not add to it: " + not_an_extension(s.fp, now));
            else {
               std::string why = not_an_extension(s.fp, now);
               if (not why.empty()) err("C05:container-rewritten:" + kind + ":by:" + opname, "the container " + s.label + " did not merely gain members at its end: " + why);
            }
            s.fp = now;
         }
         check_members("enum", static_cast<const ipr::Enum&>(*E).members(), model_enum);
         check_members("parameter-list", static_cast<const ipr::Mapping&>(*M).parameters().elements(), model_param);
         check_members("base-list", static_cast<const ipr::Class&>(*C).bases(), model_base);
         check_members("handlers", static_cast<const ipr::Block&>(*B).handlers(), model_handler);
         check_members("scope", static_cast<const ipr::Region&>(*R).bindings().elements(), model_scope);
         check_members("expr-list", static_cast<const ipr::Expr_list&>(*XL).elements(), model_xl);
         check_members("class-members", static_cast<const ipr::Class&>(*C).members(), model_field);
         check_members("block-body", static_cast<const ipr::Block&>(*B).body(), model_stmt);
         check_members("binding-names", static_cast<const ipr::Structured_binding&>(*SB).names(), model_ids);
         check_artefacts("module-units", static_cast<const ipr::Module&>(*module).implementation_units(), model_units);
         check_artefacts("pragma-tokens", static_cast<const ipr::Pragma&>(*PR).operand(), model_tokens);
         check_artefacts("captures", static_cast<const ipr::Closure&>(*CL).members(), model_caps);
         check_artefacts("designators", static_cast<const ipr::Using_declaration&>(*U).designators(), model_desigs);
      }
   };

   std::string hist_text(const std::vector<int>& h)
   {
      std::string s;
      for (int o : h) s += std::string(s.empty() ? "" : " ; ") + op_name[o];
      return s;
   }

   void run_history(const std::vector<int>& h)
   {
      current = "history " + hist_text(h);
      World w;
      std::size_t step = 0;
      for (int o : h) {
         const std::size_t born = w.snaps.size();
         auto dirty = w.apply(o);
         w.reobserve(dirty, born, op_name[o]);
         rep.count("states");
         ++step;
         if (not w.errors.empty()) break;
      }
      rep.count("traces");
      if (rep.samples.size() < rep.sample_cap and h.size() >= 3) rep.sample(vf::JObj{}.str("history", hist_text(h)).num("nodes_re_observed_after_every_step", (long long) w.snaps.size()).done());
      std::set<int> distinct(h.begin(), h.end());
      if (distinct.size() < h.size()) rep.count("distinct_nontrivial");
      for (auto& e : w.errors) {
         auto tab = e.find('\t');
         std::vector<long long> ops(h.begin(), h.begin() + long(step));
         rep.violation(e.substr(0, tab), (long long) step, e.substr(tab + 1) + " [history: " + hist_text(std::vector<int>(h.begin(), h.begin() + long(step))) + "]",
                       vf::JObj{}.str("pass", "C05").str("family", "history").raw("ops", vf::jarr(ops)).done());
         if (verbose) std::printf("  VIOLATION %s\n", e.c_str());
      }
   }

   void enumerate(int depth)
   {
      long long job = 0;
      for (int d = 1; d <= depth; ++d) {
         std::vector<int> idx(std::size_t(d), 0);
         while (true) {
            if (opt.mine(job++)) {
               if ((job & 0xff) == 0 and opt.expired()) { rep.cap("deadline at history depth " + std::to_string(d)); return; }
               run_history(idx);
            }
            int k = d - 1;
            while (k >= 0 and ++idx[std::size_t(k)] == NOPS) idx[std::size_t(k--)] = 0;
            if (k < 0) break;
         }
         rep.maxi("max_depth_completed", d);
      }
   }

   // ================================= Pass C: growth ============================================================
   void growth(int member_op, int K)
   {
      current = std::string("growth of ") + op_name[member_op];
      World w;
      auto checkpoint = [](int i) { for (int p = 2; p <= (1 << 20); p <<= 1) if (i == p - 1 or i == p or i == p + 1) return true; return false; };
      // only the first, middle and last nodes handed out are kept as snapshots (everything else is covered by the model vectors)
      for (int i = 1; i <= K; ++i) {
         opt.kick();
         const std::size_t born = w.snaps.size();
         auto dirty = w.apply(member_op);
         // interleave two unrelated factories
         (void) w.lex.make_minus(w.ctx.E(0), w.ctx.E(1));
         (void) w.lex.get_pointer(w.lex.get_reference(static_cast<const ipr::Type&>(*w.tower)));
         if (checkpoint(i) or i == K) {
            w.reobserve(dirty, born, op_name[member_op]);
            rep.count("states");
            if (not w.errors.empty()) break;
         }
         else {
            for (std::size_t k = born; k < w.snaps.size(); ++k) w.snaps[k].fp = w.observe(w.snaps[k]);
            for (auto& lab : dirty) { auto it = w.index.find(lab); if (it != w.index.end()) w.snaps[std::size_t(it->second)].fp = w.observe(w.snaps[std::size_t(it->second)]); }
            // keep the snapshot table bounded: drop what was born in this step except at checkpoints (first 64 steps are all kept)
            if (i > 64) {
               for (std::size_t k = born; k < w.snaps.size(); ++k) w.index.erase(w.snaps[k].label);
               // a dirty container's fingerprint must still be refreshed so that the next comparison is against the latest state
               w.snaps.resize(born);
               for (auto& lab : dirty) { auto it = w.index.find(lab); if (it != w.index.end()) w.snaps[std::size_t(it->second)].fp = w.observe(w.snaps[std::size_t(it->second)]); }
               while (not w.decls_of_x.empty() and std::size_t(w.decls_of_x.back()) >= born) w.decls_of_x.pop_back();
            }
         }
      }
      rep.count("traces");
      for (auto& e : w.errors) {
         auto tab = e.find('\t');
         rep.violation(e.substr(0, tab) + ":growth", K, e.substr(tab + 1) + " [growth history: " + std::to_string(K) + " x " + op_name[member_op] + " interleaved with make_minus and get_pointer]",
                       vf::JObj{}.str("pass", "C05").str("family", "growth").raw("ops", vf::jarr(std::vector<long long>{ member_op, K })).done());
         if (verbose) std::printf("  VIOLATION %s\n", e.c_str());
      }
   }

   // string pool and trees: many keys, first / middle / last re-read at checkpoints
   void pool_and_tree_growth(int words, int keys)
   {
      current = "string pool growth";
      {
         ipr::impl::Lexicon lex;
         std::vector<const ipr::String*> kept;
         std::vector<std::u8string> text;
         auto spelled = [](int i) { std::u8string w = u8"word-number-"; for (int k = 0; k < 7; ++k) w += char8_t('a' + (i >> (4 * k)) % 16); w.append(std::size_t(i % 23), u8'.'); return w; };
         for (int i = 0; i < words; ++i) {
            opt.kick();
            auto w = spelled(i);
            const ipr::String& s = lex.get_string(w);
            kept.push_back(&s); text.push_back(w);          // every String ever returned is re-read at every checkpoint
            if ((i & (i + 1)) == 0 or i + 1 == words) {
               for (std::size_t k = 0; k < kept.size(); ++k) {
                  rep.count("transitions");
                  if (kept[k]->characters() != std::u8string_view(text[k])) { rep.violation("C05:changed:String:growth", i, "a String returned earlier no longer has its characters after " + std::to_string(i + 1) + " interned words", "{\"pass\":\"C05\",\"family\":\"growth\",\"ops\":[]}"); break; }
                  if (&lex.get_string(text[k]) != kept[k]) { rep.violation("C05:moved:String:growth", i, "interning the same word again no longer yields the node returned earlier", "{\"pass\":\"C05\",\"family\":\"growth\",\"ops\":[]}"); break; }
               }
               rep.count("states");
            }
         }
         rep.count("traces");
      }
      current = "tree growth";
      {
         ipr::impl::Lexicon lex;
         std::vector<std::pair<const ipr::Type*, const ipr::Type*>> kept;      // (node, operand)
         const ipr::Type* t = &lex.int_type();
         for (int i = 0; i < keys; ++i) {
            const ipr::Type* operand = t;
            t = i % 3 == 0 ? static_cast<const ipr::Type*>(&lex.get_pointer(*t)) : i % 3 == 1 ? static_cast<const ipr::Type*>(&lex.get_qualified(lex.const_qualifier(), *t)) : static_cast<const ipr::Type*>(&lex.get_array(*t, *lex.make_literal(lex.int_type(), u8"3")));
            if (i < 8 or (i & (i - 1)) == 0 or i == keys / 2 or i + 1 == keys) kept.push_back({ t, operand });
            if ((i & (i + 1)) == 0 or i + 1 == keys)
               for (auto& [node, arg] : kept) {
                  rep.count("transitions");
                  const ipr::Type* again = nullptr;
                  if (auto p = ipr::util::view<ipr::Pointer>(*node)) { if (&p->points_to() != arg) rep.violation("C05:changed:Pointer:growth", i, "a pointer type returned earlier no longer reports its operand", "{\"pass\":\"C05\",\"family\":\"growth\",\"ops\":[]}"); again = &lex.get_pointer(*arg); }
                  else if (auto q = ipr::util::view<ipr::Qualified>(*node)) { if (&q->main_variant() != arg) rep.violation("C05:changed:Qualified:growth", i, "a qualified type returned earlier no longer reports its operand", "{\"pass\":\"C05\",\"family\":\"growth\",\"ops\":[]}"); again = &lex.get_qualified(lex.const_qualifier(), *arg); }
                  else if (auto a = ipr::util::view<ipr::Array>(*node)) { if (&a->element_type() != arg) rep.violation("C05:changed:Array:growth", i, "an array type returned earlier no longer reports its operand", "{\"pass\":\"C05\",\"family\":\"growth\",\"ops\":[]}"); again = node; }
                  if (again != node) rep.violation("C05:moved:tree-node:growth", i, "asking again for a type returned earlier yields another node after " + std::to_string(i + 1) + " insertions", "{\"pass\":\"C05\",\"family\":\"growth\",\"ops\":[]}");
               }
         }
         rep.count("traces");
      }
   }
}

int main(int argc, char** argv)
{
   opt = vf::parse_options(argc, argv);
   vf::install_crash_handler(opt, "C05");
   (void) zoo::rows();            // built once, with the default allocator, before any address personality is selected
   vf::crash_describe = describe_current;
   for (auto& a : opt.extra) if (a == "--asan") asan = true;
   verbose = not opt.replay.empty();
   if (verbose) {
      auto text = vf::slurp(opt.replay);
      auto ops = vf::json_int_array(text, "ops");
      if (text.find("\"history\"") != std::string::npos) { std::vector<int> h(ops.begin(), ops.end()); std::printf("replay C05: history %s\n", hist_text(h).c_str()); run_history(h); }
      else if (text.find("\"growth\"") != std::string::npos and ops.size() == 2) growth(int(ops[0]), int(ops[1]));
      else if (text.find("\"growth\"") != std::string::npos) pool_and_tree_growth(70000, 20000);
      else { opt.tier = "thorough"; zoo_pass(ops.empty() ? 0 : int(ops[0]), 11); }
      for (auto& [k, v] : rep.viols) std::printf("violated: %s  (%s)\n", k.c_str(), v.what.c_str());
      return rep.viols.empty() ? 0 : 1;
   }
   const bool deep = opt.thorough();
   long long job = 0;
   // Pass A
   const int rots = asan ? (deep ? 4 : 2) : (deep ? 12 : 4);
   for (int r = 0; r < rots; ++r) if (opt.mine(job++)) zoo_pass(r, 11);
   // Pass C
   const int member_ops[] = { Label, Enumerator, Parameter, Base, Handler, ModuleUnit, PragmaToken, CaptureOp, Designator, ScopeMember, Redeclare, ExprListMember, ClassField, BlockStmt, BindingId, Farm, Symbol, Subregion };
   const int K = asan ? (deep ? 1100 : 300) : (deep ? 5000 : 1100);
   for (int mo : member_ops) if (opt.mine(job++)) growth(mo, K);
   if (opt.mine(job++)) pool_and_tree_growth(asan ? 20000 : 70000, asan ? (deep ? 20000 : 5000) : (deep ? 100000 : 20000));
   // Pass B
   const int depth = asan ? (deep ? 4 : 3) : (deep ? 5 : 4);
   enumerate(depth);
   if (opt.shard == 0) {
      std::vector<std::string> names;
      for (auto n : op_name) names.push_back(n);
      rep.info("alphabet", vf::jarr_str(names));
      rep.info("bounds", vf::JObj{}.num("history_depth", depth).num("operations", NOPS).num("zoo_rotations", rots).num("disturbing_tables_per_rotation", 11).num("growth_K", K).done());
      rep.sample(vf::JObj{}.str("history", hist_text({ Symbol, Enumerator, Symbol })).str("checked", "after each step every node returned so far is re-read through every accessor of its interface; containers only grow at the end; addresses of members unchanged").done());
      rep.sample(vf::JObj{}.str("history", hist_text({ WarehouseProduct, Tree, WarehouseProduct })).done());
   }
   rep.write(opt);
   return 0;
}
