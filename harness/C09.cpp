// C09 — every node has the type its kind prescribes; sequence types track their members.
// (1) the factory table: every row x operand rotation x type supplied / not supplied, evaluated against the row's type
// rule (fixed / given / absent / borrowed-with-exception-equivalence);
// (2) every addition sequence of length <= 5 over 3 element types for each growing container.
#include <algorithm>
#include <memory>

#include "zoo/zoo.hpp"
#include "envctl.hpp"

namespace {
   vf::Report rep;
   vf::Options opt;
   bool verbose = false;

   void table(int rot)
   {
      using namespace zoo;
      vf::env::set_alloc(vf::env::Alloc(rot % 4));
      struct Reset { ~Reset() { vf::env::set_alloc(vf::env::Alloc::Malloc); vf::env::arena_reset(); } } reset;
      ipr::impl::Lexicon lex;
      ipr::impl::Translation_unit unit{ lex };
      Ctx c{ lex, unit };
      c.rot = rot;
      c.rep = &rep;
      c.prop = "C09";
      build_all(c);
      rep.count("states", (long long) c.entries.size());
      rep.count("traces");
      // the type a node reports must still be the prescribed one after the factories have been used again with other
      // operands (whole table rebuilt in units of their own on the same Lexicon, every other rotation)
      c.prop = "";
      const std::size_t n = c.entries.size();
      std::vector<const ipr::Type*> ty(n, nullptr);
      std::vector<char> refused(n, 0);
      auto read = [&](std::size_t i, const ipr::Type*& t, char& r) {
         t = nullptr; r = 0;
         if (c.entries[i].as_expr == nullptr) return;
         try { t = &c.entries[i].as_expr->type(); } catch (const std::logic_error&) { r = 1; }
      };
      for (std::size_t i = 0; i < n; ++i) read(i, ty[i], refused[i]);
      std::vector<std::unique_ptr<ipr::impl::Translation_unit>> units;
      std::vector<std::unique_ptr<Ctx>> ctxs;
      for (int r2 = 0; r2 < 12; ++r2) {
         if (r2 == rot) continue;
         units.push_back(std::make_unique<ipr::impl::Translation_unit>(lex));
         ctxs.push_back(std::make_unique<Ctx>(lex, *units.back()));
         ctxs.back()->rot = r2;
         ctxs.back()->prop = "";
         build_all(*ctxs.back());
      }
      for (std::size_t i = 0; i < n; ++i) {
         if (c.entries[i].as_expr == nullptr) continue;
         const ipr::Type* t; char r;
         read(i, t, r);
         rep.count("transitions");
         if (t != ty[i] or r != refused[i])
            rep.violation("C09:" + c.entries[i].row + ":type-changed-by-later-constructions", rot * 100 + 50,
                          "the type reported by the " + c.entries[i].iface + " built by row " + c.entries[i].row + " is no longer the one it reported when built, after the factories were used again with other operands [operand rotation " + std::to_string(rot) + "]",
                          vf::JObj{}.str("pass", "C09").str("row", c.entries[i].row).raw("ops", vf::jarr(std::vector<long long>{ rot })).done());
      }
   }

   void fail(const std::string& key, const std::vector<long long>& seq, const std::string& what)
   {
      rep.violation("C09:" + key, (long long) seq.size(), what + " [additions: " + vf::jarr(seq) + "]", vf::JObj{}.str("pass", "C09").num("container", 1).raw("ops", vf::jarr(seq)).done());
      if (verbose) std::printf("  VIOLATION C09:%s: %s\n", key.c_str(), what.c_str());
   }

   // after each addition, `type` (obtained BEFORE the additions) must be a Product of exactly the current elements' types
   void check_product(const std::string& what, const std::vector<long long>& seq, const ipr::Type& type, const std::vector<const ipr::Type*>& want)
   {
      rep.count("transitions");
      auto p = ipr::util::view<ipr::Product>(type);
      if (p == nullptr) { fail(what + ":not-a-product", seq, "the type of the " + what + " is not a Product"); return; }
      if (p->size() != want.size()) { fail(what + ":stale-size", seq, "the type of the " + what + " has " + std::to_string(p->size()) + " components for " + std::to_string(want.size()) + " elements"); return; }
      for (std::size_t i = 0; i < want.size(); ++i)
         if (&(*p)[i] != want[i]) { fail(what + ":wrong-component", seq, "component #" + std::to_string(i) + " of the type of the " + what + " is not the type of element #" + std::to_string(i)); return; }
   }

   void containers(const std::vector<long long>& seq)
   {
      ipr::impl::Lexicon lex;
      ipr::impl::Translation_unit unit{ lex };
      const ipr::Lexicon& l = lex;
      auto& region = *unit.global_region();
      const ipr::Type* ty[3] = { &l.int_type(), &lex.get_pointer(l.char_type()), &l.double_type() };
      auto name = [&](std::size_t i) -> const ipr::Name& { return lex.get_identifier(std::u8string(1, char8_t('a' + i))); };
      // heterogeneous scope through three declaration kinds
      {
         auto* r = region.make_subregion();
         const ipr::Type& t = static_cast<const ipr::Region&>(*r).bindings().type();
         std::vector<const ipr::Type*> want;
         check_product("scope", {}, t, want);
         for (std::size_t i = 0; i < seq.size(); ++i) {
            int k = int(seq[i]);
            if (k == 0) r->declare_var(name(i), *ty[0]); else if (k == 1) r->declare_field(name(i), *ty[1]); else r->declare_bitfield(name(i), *ty[2]);
            want.push_back(ty[k]);
            check_product("scope", { seq.begin(), seq.begin() + i + 1 }, t, want);
            rep.count("states");
         }
      }
      // parameter list
      {
         auto* m = lex.make_mapping(region, ipr::Mapping_level{ 1 });
         const ipr::Parameter_list& pl = m->parameters();
         const ipr::Type& t = pl.type();
         std::vector<const ipr::Type*> want;
         check_product("parameter-list", {}, t, want);
         for (std::size_t i = 0; i < seq.size(); ++i) {
            m->param(name(i), *ty[seq[i]]);
            want.push_back(ty[seq[i]]);
            // the component of the NEW member is read first (before any lower index), right after the refused reads of the
            // previous round: a refused access must not leave anything behind that a later, valid one trips over
            if (auto p = ipr::util::view<ipr::Product>(t)) {
               rep.count("transitions");
               try { if (&(*p)[i] != ty[seq[i]]) fail("parameter-list:wrong-component-after-refused-access", { seq.begin(), seq.begin() + i + 1 }, "component #" + std::to_string(i) + " of the parameter list's type, read first after an out-of-range access was refused, is not the type of the parameter just added"); }
               catch (const std::exception& e) { fail("parameter-list:valid-component-refused", { seq.begin(), seq.begin() + i + 1 }, std::string("reading the component of the parameter just added is refused: ") + e.what()); }
            }
            check_product("parameter-list", { seq.begin(), seq.begin() + i + 1 }, t, want);
            // (the last successful access was at the highest index; the last refused one is at exactly size())
            for (std::size_t beyond : { i + 2, i + 1 }) { try { (void) &*pl.elements().position(beyond); fail("parameter-list:out-of-range-answered", { seq.begin(), seq.begin() + i + 1 }, "a position beyond the last parameter is answered"); } catch (const std::logic_error&) { } }
            check_product("parameter-scope", { seq.begin(), seq.begin() + i + 1 }, pl.region().bindings().type(), want);
            rep.count("states");
         }
      }
      // parameter list whose parameters are all unnamed (they share the Lexicon's unnamed identifier), as in f(int, double):
      // every addition yields a parameter of its own, with the type given, and the product keeps growing
      {
         auto* m = lex.make_mapping(region, ipr::Mapping_level{ 1 });
         const ipr::Parameter_list& pl = m->parameters();
         const ipr::Type& t = pl.type();
         std::vector<const ipr::Type*> want;
         std::vector<const ipr::Parameter*> made;
         auto& unnamed = lex.get_identifier(u8"");
         for (std::size_t i = 0; i < seq.size(); ++i) {
            const ipr::Parameter* p = m->param(i % 2 ? static_cast<const ipr::Name&>(unnamed) : static_cast<const ipr::Name&>(lex.get_identifier(u8"same")), *ty[seq[i]]);
            rep.count("transitions");
            if (&p->type() != ty[seq[i]]) fail("parameter-list(repeated-name):type-not-the-one-given", { seq.begin(), seq.begin() + i + 1 }, "a parameter added with a name already used in the list does not report the type it was given");
            if (std::find(made.begin(), made.end(), p) != made.end()) fail("parameter-list(repeated-name):not-a-new-parameter", { seq.begin(), seq.begin() + i + 1 }, "adding a parameter with a name already used in the list returned an existing parameter");
            made.push_back(p);
            want.push_back(ty[seq[i]]);
            check_product("parameter-list(repeated-name)", { seq.begin(), seq.begin() + i + 1 }, t, want);
            rep.count("states");
         }
      }
      // expression list
      {
         auto* x = lex.make_expr_list();
         const ipr::Type& t = static_cast<const ipr::Expr_list&>(*x).type();
         std::vector<const ipr::Type*> want;
         check_product("expression-list", {}, t, want);
         for (std::size_t i = 0; i < seq.size(); ++i) {
            x->push_back(lex.make_literal(*ty[seq[i]], u8"0"));
            want.push_back(ty[seq[i]]);
            check_product("expression-list", { seq.begin(), seq.begin() + i + 1 }, t, want);
            rep.count("states");
         }
      }
      // enumeration and base list (element type: the enum itself / the base types)
      {
         auto* e = lex.make_enum(region, ipr::Enum::Kind::Legacy);
         const ipr::Type& t = static_cast<const ipr::Enum&>(*e).region().bindings().type();
         std::vector<const ipr::Type*> want;
         auto* k = lex.make_class(region);
         std::vector<const ipr::Type*> bwant;
         const ipr::Type* bt = nullptr;
         for (std::size_t i = 0; i < seq.size(); ++i) {
            e->add_member(name(i));
            want.push_back(e);
            check_product("enumeration", { seq.begin(), seq.begin() + i + 1 }, t, want);
            auto* b = k->declare_base(*ty[seq[i]]);
            if (bt == nullptr) bt = &static_cast<const ipr::Base_type&>(*b).home_region().bindings().type();
            bwant.push_back(ty[seq[i]]);
            if (auto p = ipr::util::view<ipr::Product>(*bt)) {
               rep.count("transitions");
               try { if (&(*p)[i] != ty[seq[i]]) fail("base-list:wrong-component-after-refused-access", { seq.begin(), seq.begin() + i + 1 }, "component #" + std::to_string(i) + " of the base list's type, read first after an out-of-range access was refused, is not the base just declared"); }
               catch (const std::exception& e) { fail("base-list:valid-component-refused", { seq.begin(), seq.begin() + i + 1 }, std::string("reading the component of the base just declared is refused: ") + e.what()); }
            }
            check_product("base-list", { seq.begin(), seq.begin() + i + 1 }, *bt, bwant);
            { auto& bs = static_cast<const ipr::Class&>(*k).bases(); for (std::size_t beyond : { i + 2, i + 1 }) { try { (void) &*bs.position(beyond); fail("base-list:out-of-range-answered", { seq.begin(), seq.begin() + i + 1 }, "a position beyond the last base is answered"); } catch (const std::logic_error&) { } } }
            rep.count("states");
         }
      }
      rep.count("traces");
   }
}

   // Declarations given a type report exactly that type: every ordered pair (and triple) of function types drawn from
   // 3 signatures x {plain, "C" linkage, fastcall convention} declared under ONE name in one scope.
   void function_types_differing_in_transfer()
   {
      const int NS = 3, NX = 3, N = NS * NX;
      for (int a = 0; a < N; ++a) for (int b = 0; b < N; ++b) for (int c3 = -1; c3 < N; ++c3) {
         ipr::impl::Lexicon lex;
         ipr::impl::Translation_unit unit{ lex };
         const ipr::Lexicon& l = lex;
         std::vector<const ipr::Function*> ft;
         const ipr::Transfer* xf[NX] = { nullptr, &lex.get_transfer_from_linkage(l.c_linkage()), &lex.get_transfer_from_convention(lex.get_calling_convention(u8"fastcall")) };
         for (int sg = 0; sg < NS; ++sg) {
            ipr::impl::Warehouse<ipr::Type> w;
            if (sg > 0) w.push_back(l.int_type());
            if (sg > 1) w.push_back(l.char_type());
            for (int x = 0; x < NX; ++x) ft.push_back(x == 0 ? &lex.get_function(lex.get_product(w), l.int_type()) : &lex.get_function(lex.get_product(w), l.int_type(), *xf[x]));
         }
         auto& name = lex.get_identifier(u8"f");
         auto* region = unit.global_region()->make_subregion();
         std::vector<long long> seq{ a, b };
         if (c3 >= 0) seq.push_back(c3);
         std::vector<const ipr::Decl*> decls;
         for (auto k : seq) {
            const ipr::Decl* d = region->declare_fun(name, *ft[std::size_t(k)]);
            decls.push_back(d);
            rep.count("transitions"); rep.count("states");
            for (std::size_t i = 0; i < decls.size(); ++i)
               if (&decls[i]->type() != ft[std::size_t(seq[i])]) { fail("declare_fun:type-not-the-one-given", seq, "a function declared with type #" + std::to_string(seq[i]) + " (signature " + std::to_string(seq[i] / NX) + ", transfer " + std::to_string(seq[i] % NX) + ") reports another type once a same-named function whose type differs only in the transfer is declared"); break; }
            auto idx = lex.make_id_expr(*d);
            if (&static_cast<const ipr::Expr&>(*idx).type() != ft[std::size_t(k)]) fail("id-expr:borrowed:declaration", seq, "the id-expression of a function declaration does not report that declaration's type");
         }
         std::vector<const ipr::Type*> want;
         for (auto k : seq) want.push_back(ft[std::size_t(k)]);
         check_product("scope(functions)", seq, static_cast<const ipr::Region&>(*region).bindings().type(), want);
         rep.count("traces");
      }
   }

int main(int argc, char** argv)
{
   opt = vf::parse_options(argc, argv);
   vf::install_crash_handler(opt, "C09");
   (void) zoo::rows();            // built once, with the default allocator, before any address personality is selected
   verbose = not opt.replay.empty();
   if (verbose) {
      auto text = vf::slurp(opt.replay);
      auto ops = vf::json_int_array(text, "ops");
      if (vf::json_int(text, "container") == 1 and text.find("declare_fun") != std::string::npos) function_types_differing_in_transfer();
      else if (vf::json_int(text, "container") == 1) { std::printf("replay C09: container additions %s\n", vf::jarr(ops).c_str()); containers(ops); }
      else { int rot = ops.empty() ? 0 : int(ops[0]); std::printf("replay C09: factory table, operand rotation %d\n", rot); table(rot); }
      for (auto& [k, v] : rep.viols) std::printf("violated: %s  (%s)\n", k.c_str(), v.what.c_str());
      return rep.viols.empty() ? 0 : 1;
   }
   int job = 0;
   for (int rot = 0; rot < 12; ++rot) if (opt.mine(job++)) table(rot);
   const int maxlen = opt.thorough() ? 7 : 5;
   for (int len = 0; len <= maxlen; ++len) {
      long long total = 1;
      for (int i = 0; i < len; ++i) total *= 3;
      for (long long v = 0; v < total; ++v) {
         if (not opt.mine(job++)) continue;
         std::vector<long long> seq;
         long long x = v;
         for (int i = 0; i < len; ++i) { seq.push_back(x % 3); x /= 3; }
         containers(seq);
      }
   }
   if (opt.shard == 1 % opt.shards) function_types_differing_in_transfer();
   if (opt.shard == 0) {
      rep.count("distinct_nontrivial", (long long) zoo::rows().size());
      rep.info("space", vf::JObj{}.num("factory_rows", (long long) zoo::rows().size()).num("operand_rotations", 12).num("max_addition_sequence_length", maxlen).num("element_types", 3).done());
      rep.sample(vf::JObj{}.str("row", "make_rewrite").str("rule", "borrowed: type() == target().type(), or both refuse with logic_error").done());
      rep.sample(vf::JObj{}.str("container", "parameter-list").raw("additions", "[0,2,2,1]").str("rule", "the Product obtained before the additions has exactly the current element types after each addition").done());
   }
   rep.write(opt);
   return 0;
}
