// C18 — printing terminates and leaves the stream and the printer as it found them.
// (a) every node of the zoo (every factory row + the implementation classes no factory returns) is offered to every
//     printer entry point its static type admits (xpr_expr, xpr_stmt, xpr_decl; xpr_type for types), each case in a
//     forked child with a 1 MiB stack, a CPU limit and an output budget, so that unbounded recursion, hangs and
//     runaway output are OBSERVED outcomes;
// (b) literals whose spelling is each of the 256 single bytes, and every ordered pair from a 15-byte set, each
//     followed in the same stream by numbers (nesting level, position, file/line/column) that must read in decimal;
// (c) every Delimiter x {phantom, literal, expression list, nested enclosure};
// (d) EVERY statement tree up to a depth bound over 15 statement forms, completely built, printed as a top-level
//     statement from two initial indentations.
// Oracle: outcome is "completed" or std::logic_error; flags()/fill()/width()/precision() of the stream unchanged; the
// decimal probe reads back; no byte < 0x20 other than '\n' (and no 0x7f) unless it occurs in a spelling of the graph;
// Printer::indent() back to its initial value after each completed top-level declaration or statement.
#include <csignal>
#include <cstring>
#include <functional>
#include <sstream>
#include <sys/resource.h>
#include <sys/wait.h>
#include <unistd.h>

#include <ipr/io>

#include "zoo/zoo.hpp"

namespace {
   vf::Report rep;
   vf::Options opt;
   bool verbose = false;

   // ---- output budget: a streambuf that refuses to grow beyond a bound (private exception, not a logic_error) ----
   struct Output_overflow { };
   struct Bounded_buf : std::stringbuf {
      std::size_t written = 0;
      std::size_t limit = std::size_t(1) << 20;
      int_type overflow(int_type c) override { if (++written > limit) throw Output_overflow{ }; return std::stringbuf::overflow(c); }
      std::streamsize xsputn(const char* s, std::streamsize n) override { written += std::size_t(n); if (written > limit) throw Output_overflow{ }; return std::stringbuf::xsputn(s, n); }
   };

   struct Observation {
      std::string outcome;          // completed | logic_error | other-exception | output-overflow
      std::string text;             // bytes written by the case itself
      bool flags_kept = true;
      bool probe_decimal = true;
      std::string probe_text;
      int indent_before = 0, indent_after = 0;
      bool second_same = true;
   };

   enum EntryPoint { EP_expr, EP_stmt, EP_decl, EP_type, NEP };
   const char* ep_name[] = { "xpr_expr", "xpr_stmt", "xpr_decl", "xpr_type" };

   // Print one node through one entry point, then the decimal probe through the SAME printer and stream.
   Observation print_case(const ipr::Lexicon& lex, int ep, const ipr::Expr& e, const ipr::Type* as_type, const ipr::Stmt& located, int initial_indent = 0)
   {
      Observation o;
      Bounded_buf buf;
      std::ostream os{ &buf };
      ipr::Printer pp{ lex, os };
      pp.indent(initial_indent);
      // the client configures its stream AFTER handing it to the printer (none of this affects how integers are written)
      os.setf(std::ios::boolalpha | std::ios::showpoint | std::ios::uppercase | std::ios::unitbuf);
      os.unsetf(std::ios::skipws);
      os.fill('*');
      os.precision(3);
      const auto flags = os.flags();
      const auto fill = os.fill();
      const auto width = os.width();
      const auto prec = os.precision();
      o.indent_before = pp.indent();
      try {
         switch (ep) {
         case EP_expr: pp << ipr::xpr_expr(e); break;
         case EP_stmt: pp << ipr::xpr_stmt(e); break;
         case EP_decl: pp << ipr::xpr_decl(e); break;
         case EP_type: pp << ipr::xpr_type(*as_type); break;
         }
         o.outcome = "completed";
      }
      catch (const std::logic_error&) { o.outcome = "logic_error"; }
      catch (const Output_overflow&) { o.outcome = "output-overflow"; }
      catch (const std::exception& x) { o.outcome = std::string("other-exception:") + typeid(x).name(); }
      catch (...) { o.outcome = "other-exception"; }
      o.indent_after = pp.indent();
      o.flags_kept = os.flags() == flags and os.fill() == fill and os.width() == width and os.precision() == prec;
      o.text = buf.str();
      if (o.outcome == "output-overflow") return o;
      // the same printer asked again for the same construct must behave the same (nothing of the first print may linger)
      if (o.outcome == "completed" or o.outcome == "logic_error") {
         const std::size_t mark = o.text.size();
         std::string second;
         pp << ipr::Printer::Padding::None;
         pp.needs_newline(false);
         const int before_second = pp.indent();
         try {
            switch (ep) {
            case EP_expr: pp << ipr::xpr_expr(e); break;
            case EP_stmt: pp << ipr::xpr_stmt(e); break;
            case EP_decl: pp << ipr::xpr_decl(e); break;
            case EP_type: pp << ipr::xpr_type(*as_type); break;
            }
            second = "completed";
         }
         catch (const std::logic_error&) { second = "logic_error"; }
         catch (...) { second = "other"; }
         o.second_same = second == o.outcome;
         if (o.outcome == "completed" and second == "completed") {
            std::string again = buf.str().substr(mark);
            // leading layout may differ (pending newline / padding); compare from the first non-blank byte
            auto strip = [](const std::string& t) { std::size_t i = 0; while (i < t.size() and (t[i] == ' ' or t[i] == '\n')) ++i; return t.substr(i); };
            o.second_same = strip(again) == strip(o.text);
         }
         if (second == "completed") pp.indent(before_second - pp.indent());       // (a refused second print may leave indentation anywhere)
         buf.str(o.text);
         buf.pubseekoff(0, std::ios_base::end, std::ios_base::out);
      }
      // probe: numbers written after the case must be decimal from the first to the last byte
      const std::size_t before = o.text.size();
      try {
         pp << ipr::Printer::Padding::None;
         pp << ' ' << ipr::Mapping_level{ 10 } << ' ' << ipr::Decl_position{ 9 } << ' ';
         pp.print_locations = true;
         pp.needs_newline(false);
         pp << ipr::xpr_stmt(located);
      }
      catch (...) { }
      // the numbers just written must not have cost the client its stream configuration either
      if (not(os.flags() == flags and os.fill() == fill and os.width() == width and os.precision() == prec)) o.flags_kept = false;
      std::string all = buf.str();
      o.probe_text = all.substr(before);
      o.probe_decimal = o.probe_text.find(" 10 9 ") != std::string::npos and o.probe_text.find("F8:64:100 ") != std::string::npos;
      return o;
   }

   // bytes < 0x20 other than '\n', or 0x7f, that do not occur in `allowed`
   std::string stray_control_bytes(const std::string& text, const std::string& allowed)
   {
      std::string bad;
      for (unsigned char ch : text)
         if ((ch < 0x20 and ch != '\n') or ch == 0x7f)
            if (allowed.find(char(ch)) == std::string::npos and bad.find(char(ch)) == std::string::npos) bad += char(ch);
      return bad;
   }

   std::string hex(const std::string& s)
   {
      std::string r;
      char b[8];
      for (unsigned char ch : s) { std::snprintf(b, sizeof b, "%02x", ch); r += b; }
      return r;
   }

   // ---- sandbox ---------------------------------------------------------------------------------------------
   struct Sandboxed { std::string status; std::string payload; };     // status: ok | SIGSEGV | SIGXCPU | signal-N | exit-N

   Sandboxed sandbox(const std::function<std::string()>& body)
   {
      int fd[2];
      if (pipe(fd) != 0) { std::perror("pipe"); std::exit(2); }
      std::fflush(nullptr);
      pid_t pid = fork();
      if (pid < 0) { std::perror("fork"); std::exit(2); }
      if (pid == 0) {
         close(fd[0]);
         for (int sig : { SIGSEGV, SIGABRT, SIGFPE, SIGBUS, SIGILL }) signal(sig, SIG_DFL);
         stack_t ss{ };
         ss.ss_flags = SS_DISABLE;
         sigaltstack(&ss, nullptr);
         rlimit rl{ 1 << 20, 1 << 20 };
         setrlimit(RLIMIT_STACK, &rl);
         rlimit cpu{ 5, 6 };
         setrlimit(RLIMIT_CPU, &cpu);
         rlimit core{ 0, 0 };
         setrlimit(RLIMIT_CORE, &core);
         std::string r = body();
         std::size_t off = 0;
         while (off < r.size()) { auto n = write(fd[1], r.data() + off, r.size() - off); if (n <= 0) break; off += std::size_t(n); }
         _exit(0);
      }
      close(fd[1]);
      Sandboxed s;
      char buf[4096];
      ssize_t n;
      while ((n = read(fd[0], buf, sizeof buf)) > 0) s.payload.append(buf, std::size_t(n));
      close(fd[0]);
      int st = 0;
      waitpid(pid, &st, 0);
      if (WIFEXITED(st)) s.status = WEXITSTATUS(st) == 0 ? "ok" : "exit-" + std::to_string(WEXITSTATUS(st));
      else if (WIFSIGNALED(st)) {
         int sig = WTERMSIG(st);
         s.status = sig == SIGSEGV ? "SIGSEGV" : sig == SIGXCPU or sig == SIGKILL ? "SIGXCPU" : sig == SIGABRT ? "SIGABRT" : "signal-" + std::to_string(sig);
      }
      return s;
   }

   // ---- (a) zoo sweep -----------------------------------------------------------------------------------------
   struct Located { ipr::impl::Break* stmt; };

   void judge(const std::string& where, const std::string& case_name, const Observation& o, const std::string& allowed_ctrl, bool top_level, long long rank, const std::string& witness)
   {
      rep.count("transitions");
      rep.member("outcomes", where + ":" + o.outcome.substr(0, 24));
      if (o.outcome != "completed" and o.outcome != "logic_error")
         rep.violation("C18:outcome:" + o.outcome.substr(0, 40) + ":" + where, rank, "printing " + case_name + " ended with " + o.outcome + " (neither completion nor std::logic_error)", witness);
      if (not o.flags_kept)
         rep.violation("C18:stream-state:" + where, rank, "printing " + case_name + " left the stream's flags/fill/width/precision changed", witness);
      if (not o.probe_decimal and o.outcome != "output-overflow")
         rep.violation("C18:numbers-not-decimal:" + where, rank, "numbers written after printing " + case_name + " do not read 10 / 9 / F8:64:100 in decimal: '" + o.probe_text.substr(0, 60) + "'", witness);
      auto bad = stray_control_bytes(o.text, allowed_ctrl);
      if (not bad.empty())
         rep.violation("C18:control-byte:" + where, rank, "printing " + case_name + " wrote control byte(s) 0x" + hex(bad) + " that occur in no spelling of the graph", witness);
      if (not o.second_same)
         rep.violation("C18:second-print-differs:" + where, rank, "printing " + case_name + " a second time with the same printer does not end the same way / give the same text as the first time", witness);
      if (top_level and o.outcome == "completed" and o.indent_after != o.indent_before)
         rep.violation("C18:indentation:" + where, rank, "after printing " + case_name + " as a complete top-level construct the printer's indentation is " + std::to_string(o.indent_after) + ", it started at " + std::to_string(o.indent_before), witness);
   }

   std::string encode(const Observation& o)
   {
      return o.outcome + "\n" + (o.flags_kept ? "1" : "0") + (o.probe_decimal ? "1" : "0") + (o.second_same ? "1" : "0") + "\n" + std::to_string(o.indent_before) + " " + std::to_string(o.indent_after) + "\n"
             + std::to_string(o.probe_text.size()) + "\n" + o.probe_text + o.text;
   }
   Observation decode(const std::string& s)
   {
      Observation o;
      std::size_t p = s.find('\n');
      if (p == std::string::npos) { o.outcome = "no-report"; return o; }
      o.outcome = s.substr(0, p);
      o.flags_kept = s[p + 1] == '1';
      o.probe_decimal = s[p + 2] == '1';
      o.second_same = s[p + 3] == '1';
      std::size_t q = s.find('\n', p + 5);
      std::sscanf(s.c_str() + p + 5, "%d %d", &o.indent_before, &o.indent_after);
      std::size_t r = s.find('\n', q + 1);
      std::size_t plen = std::strtoul(s.c_str() + q + 1, nullptr, 10);
      o.probe_text = s.substr(r + 1, plen);
      o.text = s.substr(r + 1 + plen);
      return o;
   }

   void zoo_sweep(int rot)
   {
      using namespace zoo;
      ipr::impl::Lexicon lex;
      ipr::impl::Translation_unit unit{ lex };
      Ctx c{ lex, unit };
      c.rot = rot;
      c.prop = "";
      build_all(c);
      auto* located = lex.make_break();
      located->src_locus = ipr::Source_location{ ipr::Line_number{ 64 }, ipr::Column_number{ 100 }, ipr::File_index{ 8 } };
      long long job = 0;
      for (std::size_t i = 0; i < c.entries.size(); ++i) {
         const Entry& e = c.entries[i];
         if (e.node == nullptr or e.as_expr == nullptr) continue;
         for (int ep = 0; ep < NEP; ++ep) {
            if (ep == EP_type and e.as_type == nullptr) continue;
            if (not opt.mine(job++)) continue;
            if (opt.expired()) { rep.cap("deadline during the zoo sweep"); return; }
            const std::string where = std::string(ep_name[ep]) + ":" + e.iface;
            const std::string name = e.row + " (" + e.iface + ") through " + ep_name[ep];
            const std::string witness = vf::JObj{}.str("pass", "C18").str("family", "zoo").raw("ops", vf::jarr(std::vector<long long>{ rot, (long long) i, ep })).str("case", name).done();
            auto sb = sandbox([&] { return encode(print_case(lex, ep, *e.as_expr, e.as_type, *located)); });
            rep.count("states");
            rep.count("sandboxed_cases");
            if (sb.status != "ok") {
               rep.count("transitions");
               rep.member("outcomes", where + ":" + sb.status);
               const char* what = sb.status == "SIGSEGV" ? "recursed until the 1 MiB stack was exhausted (SIGSEGV)" : sb.status == "SIGXCPU" ? "did not terminate within the CPU limit" : "killed the process";
               rep.violation("C18:" + std::string(sb.status == "SIGSEGV" ? "recursion" : sb.status == "SIGXCPU" ? "hang" : "crash-" + sb.status) + ":" + where, (long long) i,
                             "printing " + name + " " + what, witness);
               if (verbose) std::printf("  %s -> %s\n", name.c_str(), sb.status.c_str());
               continue;
            }
            Observation o = decode(sb.payload);
            if (verbose and o.outcome != "completed" and o.outcome != "logic_error") std::printf("  %s -> %s\n", name.c_str(), o.outcome.c_str());
            judge(where, name, o, "", ep == EP_stmt or ep == EP_decl, (long long) i, witness);
         }
      }
      rep.count("traces");
   }

   // ---- (b) literal spellings ----------------------------------------------------------------------------------
   void literal_sweep()
   {
      ipr::impl::Lexicon lex;
      auto* located = lex.make_break();
      located->src_locus = ipr::Source_location{ ipr::Line_number{ 64 }, ipr::Column_number{ 100 }, ipr::File_index{ 8 } };
      std::vector<std::string> spellings;
      for (int b = 0; b < 256; ++b) spellings.push_back(std::string(1, char(b)));
      const unsigned char pool[] = { 0, 1, 2, 3, 7, 8, 9, 10, 13, 27, '\\', '"', 'a', 0x80, 0xff };
      for (unsigned char x : pool) for (unsigned char y : pool) spellings.push_back(std::string(1, char(x)) + char(y));
      for (unsigned char x : pool) for (unsigned char y : { 1, 2, 3 }) spellings.push_back(std::string("9") + char(y) + "8" + char(x));
      long long job = 0;
      for (auto& sp : spellings) {
         if (not opt.mine(job++)) continue;
         std::u8string w(reinterpret_cast<const char8_t*>(sp.data()), sp.size());
         const ipr::Expr* cases[3] = {
            lex.make_literal(lex.int_type(), w),
            lex.make_plus(*lex.make_literal(lex.char_type(), w), *lex.make_literal(lex.int_type(), u8"1")),
            nullptr };
         auto* v = lex.make_expr_stmt(*cases[0]);
         cases[2] = v;
         for (int k = 0; k < 3; ++k) {
            Observation o = print_case(lex, k == 2 ? EP_stmt : EP_expr, *cases[k], nullptr, *located);
            rep.count("states");
            const std::string witness = vf::JObj{}.str("pass", "C18").str("family", "literal").str("spelling_hex", hex(sp)).raw("ops", vf::jarr(std::vector<long long>{ })).done();
            judge(std::string("literal:") + (k == 0 ? "bare" : k == 1 ? "operand" : "statement"), "a literal spelled 0x" + hex(sp), o, sp, k == 2, (long long) sp.size() * 1000 + (unsigned char) sp[0], witness);
            if (o.outcome != "completed") rep.violation("C18:literal-not-printed", sp.size(), "a literal spelled 0x" + hex(sp) + " is not printed (" + o.outcome + ")", witness);
         }
      }
      rep.count("traces");
   }

   // ---- (c) delimiters -----------------------------------------------------------------------------------------
   void delimiter_sweep()
   {
      ipr::impl::Lexicon lex;
      auto* located = lex.make_break();
      located->src_locus = ipr::Source_location{ ipr::Line_number{ 64 }, ipr::Column_number{ 100 }, ipr::File_index{ 8 } };
      const ipr::Delimiter ds[] = { ipr::Delimiter::Nothing, ipr::Delimiter::Paren, ipr::Delimiter::Brace, ipr::Delimiter::Bracket, ipr::Delimiter::Angle };
      const char* dn[] = { "Nothing", "Paren", "Brace", "Bracket", "Angle" };
      auto* list0 = lex.make_expr_list();
      auto* list2 = lex.make_expr_list();
      list2->push_back(lex.make_literal(lex.int_type(), u8"1"));
      list2->push_back(lex.make_id_expr(lex.get_identifier(u8"x")));
      for (int d = 0; d < 5; ++d) {
         const ipr::Expr* inner[] = { lex.make_phantom(), lex.make_literal(lex.int_type(), u8"42"), list0, list2, lex.make_enclosure(ds[(d + 1) % 5], *list2) };
         const char* in[] = { "phantom", "literal", "empty-list", "list", "nested-enclosure" };
         for (int k = 0; k < 5; ++k) {
            auto* enc = lex.make_enclosure(ds[d], *inner[k]);
            const ipr::Expr* forms[] = { enc, lex.make_construction(lex.int_type(), *enc), lex.make_expr_stmt(*enc) };
            for (int f = 0; f < 3; ++f) {
               Observation o = print_case(lex, f == 2 ? EP_stmt : EP_expr, *forms[f], nullptr, *located);
               rep.count("states");
               const std::string name = std::string("an enclosure delimited by ") + dn[d] + " around a " + in[k] + (f == 1 ? " (as construction arguments)" : f == 2 ? " (as a statement)" : "");
               judge(std::string("enclosure:") + dn[d], name, o, "", f == 2, d * 10 + k, vf::JObj{}.str("pass", "C18").str("family", "delimiter").raw("ops", vf::jarr(std::vector<long long>{ d, k, f })).done());
            }
         }
      }
      rep.count("traces");
   }

   // ---- (d) statement trees -------------------------------------------------------------------------------------
   enum Form { ExprStmt, Return, Break, Continue, Goto, DeclStmt, NLEAF,
               Block1 = NLEAF, Try1, If, While, Do, For, ForIn, Switch, Labeled, NUNARY_END,
               IfElse = NUNARY_END, Block2, Try2, NFORMS };
   const char* form_name[] = { "expr", "return", "break", "continue", "goto", "decl", "block1", "try1", "if", "while", "do", "for", "for-in", "switch", "labeled", "if-else", "block2", "try2" };

   struct Tree { int form; int a = -1, b = -1; };      // children index into the tree table
   std::vector<Tree> trees;
   std::vector<int> depth_end;                         // trees[0..depth_end[d]) have depth <= d+1

   void make_tree_table(int full_depth)
   {
      trees.clear(); depth_end.clear();
      for (int f = 0; f < NLEAF; ++f) trees.push_back({ f });
      depth_end.push_back(int(trees.size()));
      for (int d = 2; d <= full_depth; ++d) {
         const int lo = d >= 3 ? depth_end[d - 3] : 0, hi = depth_end[d - 2];       // children of depth exactly d-1: [lo,hi); any shallower: [0,hi)
         const int start = int(trees.size());
         for (int f = NLEAF; f < NUNARY_END; ++f) for (int a = lo; a < hi; ++a) trees.push_back({ f, a });
         for (int f = NUNARY_END; f < NFORMS; ++f)
            for (int a = 0; a < hi; ++a) for (int b = 0; b < hi; ++b) if (a >= lo or b >= lo) trees.push_back({ f, a, b });
         (void) start;
         depth_end.push_back(int(trees.size()));
      }
   }

   std::string tree_text(int t)
   {
      const Tree& n = trees[t];
      std::string s = form_name[n.form];
      if (n.a >= 0) s += "(" + tree_text(n.a) + (n.b >= 0 ? "," + tree_text(n.b) : "") + ")";
      return s;
   }

   struct Builder {
      ipr::impl::Lexicon& lex;
      ipr::impl::Region& region;
      int counter = 0;
      const ipr::Expr& lit() { return *lex.make_literal(lex.int_type(), u8"1"); }
      const ipr::Name& fresh() { return lex.get_identifier(std::u8string(u8"v") + char8_t('a' + counter++ % 26)); }
      const ipr::Stmt& build(int t)
      {
         const Tree& n = trees[t];
         switch (n.form) {
         case ExprStmt: return *lex.make_expr_stmt(*lex.make_plus(lit(), lit()));
         case Return: return *lex.make_return(lit());
         case Break: return *lex.make_break();
         case Continue: return *lex.make_continue();
         case Goto: return *lex.make_goto(*lex.make_id_expr(lex.get_identifier(u8"L")));
         case DeclStmt: { auto* v = region.make_subregion()->declare_var(fresh(), lex.int_type()); v->init = &lit(); return *v; }
         case Block1: case Block2: case Try1: case Try2: {
            auto* b = lex.make_block(region);
            b->add_stmt(build(n.a));
            if (n.form == Block2) b->add_stmt(build(n.b));
            if (n.form == Try1 or n.form == Try2) {
               auto* h = b->new_handler(fresh(), lex.int_type());
               h->body().add_stmt(n.form == Try2 ? build(n.b) : *lex.make_break());
               if (n.form == Try2) { auto* h2 = b->new_handler(fresh(), lex.ellipsis_type()); h2->body().add_stmt(*lex.make_continue()); }
            }
            return *b;
         }
         case If: return *lex.make_if(lit(), build(n.a));
         case IfElse: return *lex.make_if(lit(), build(n.a), build(n.b));
         case While: { auto* s = lex.make_while(); s->control = &lit(); s->stmt = &build(n.a); return *s; }
         case Do: { auto* s = lex.make_do(); s->control = &lit(); s->stmt = &build(n.a); return *s; }
         case For: { auto* s = lex.make_for(); s->init = &lit(); s->cond = &lit(); s->inc = &lit(); s->stmt = &build(n.a); return *s; }
         case ForIn: { auto* s = lex.make_for_in(); s->var = region.make_subregion()->declare_var(fresh(), lex.int_type()); s->seq = &lit(); s->stmt = &build(n.a); return *s; }
         case Switch: { auto* s = lex.make_switch(); s->control = &lit(); s->stmt = &build(n.a); return *s; }
         case Labeled: return *lex.make_labeled_stmt(*lex.make_id_expr(lex.get_identifier(u8"L")), build(n.a));
         }
         return *lex.make_break();
      }
   };

   void check_tree(int t, int initial_indent)
   {
      static std::unique_ptr<ipr::impl::Lexicon> lex;
      static std::unique_ptr<ipr::impl::Translation_unit> unit;
      static ipr::impl::Break* located = nullptr;
      static int used = 0;
      if (not lex or ++used > 2000) {
         unit.reset(); lex.reset();
         lex = std::make_unique<ipr::impl::Lexicon>();
         unit = std::make_unique<ipr::impl::Translation_unit>(*lex);
         located = lex->make_break();
         located->src_locus = ipr::Source_location{ ipr::Line_number{ 64 }, ipr::Column_number{ 100 }, ipr::File_index{ 8 } };
         used = 0;
      }
      Builder b{ *lex, *unit->global_region() };
      const ipr::Stmt& s = b.build(t);
      Observation o = print_case(*lex, EP_stmt, s, nullptr, *located, initial_indent);
      rep.count("states");
      const std::string witness = vf::JObj{}.str("pass", "C18").str("family", "statement-tree").raw("ops", vf::jarr(std::vector<long long>{ t, initial_indent })).str("tree", tree_text(t)).done();
      int depth = 1;
      for (std::size_t d = 0; d < depth_end.size(); ++d) if (t >= depth_end[d]) depth = int(d) + 2;
      judge(std::string("statement-tree:") + form_name[trees[t].form], "the statement " + tree_text(t) + " (initial indentation " + std::to_string(initial_indent) + ")", o, "", true, depth * 100000LL + t, witness);
      if (o.outcome == "completed") rep.count("distinct_nontrivial");
      else rep.member("statement_trees_refused", form_name[trees[t].form]);
   }

   // ---- (e) complete declarations -----------------------------------------------------------------------------
   // kind x number of members (0..3) x flavour, each printed through xpr_decl (with and without semicolon) and xpr_stmt
   // from two initial indentations: indentation restored, stream untouched, decimal probe, no stray control bytes.
   const char* decl_kind[] = { "var", "field", "bitfield", "alias", "class", "union", "enum", "namespace", "function", "template", "nested-class" };
   void declaration_sweep()
   {
      long long job = 0;
      for (int kind = 0; kind < 11; ++kind)
         for (int members = 0; members <= 3; ++members)
            for (int flavour = 0; flavour < 4; ++flavour) {
               if (not opt.mine(job++)) continue;
               ipr::impl::Lexicon lex;
               ipr::impl::Translation_unit unit{ lex };
               auto& G = *unit.global_region();
               auto* located = lex.make_break();
               located->src_locus = ipr::Source_location{ ipr::Line_number{ 64 }, ipr::Column_number{ 100 }, ipr::File_index{ 8 } };
               auto name = [&](int i) -> const ipr::Name& { auto& n = lex.get_identifier(i % 2 ? std::u8string(u8"member-") + char8_t('0' + i) : std::u8string(u8"m") + char8_t('0' + i)); (void) lex.get_string(std::u8string(u8"q") + char8_t('0' + i)); return n; };
               auto lit = [&](const char8_t* w) -> const ipr::Expr& { return *lex.make_literal(lex.int_type(), w); };
               const ipr::Type* types[] = { &lex.int_type(), &lex.get_pointer(lex.get_qualified(lex.const_qualifier(), lex.char_type())), &lex.get_reference(lex.double_type()), &lex.get_array(lex.int_type(), lit(u8"4")) };
               auto fill_udt = [&](auto* u) {
                  for (int i = 0; i < members; ++i) {
                     if ((i + flavour) % 3 == 0) u->declare_field(name(i), *types[(i + flavour) % 4]);
                     else if ((i + flavour) % 3 == 1) u->declare_var(name(i), *types[i % 4])->init = &lit(u8"1");
                     else { auto* bf = u->declare_bitfield(name(i), lex.int_type()); bf->length = &lit(u8"3"); }
                  }
               };
               auto body_block = [&](const ipr::Region& r) {
                  auto* b = lex.make_block(r);
                  for (int i = 0; i < members; ++i) b->add_stmt(i % 2 ? static_cast<const ipr::Stmt&>(*lex.make_return(lit(u8"0"))) : static_cast<const ipr::Stmt&>(*lex.make_expr_stmt(*lex.make_plus(lit(u8"1"), lit(u8"2")))));
                  if (flavour % 2) { auto* h = b->new_handler(name(7), lex.int_type()); h->body().add_stmt(*lex.make_break()); }
                  return b;
               };
               const ipr::Decl* d = nullptr;
               // spellings that exactly fill their storage granule (8 and 24 bytes), each with another word interned right behind it
               auto& nm = lex.get_identifier(flavour % 2 ? u8"subject8" : flavour == 2 ? u8"a-name-of-24-characters!" : u8"subject");
               (void) lex.get_identifier(u8"zz");
               switch (kind) {
               case 0: { auto* v = G.declare_var(nm, *types[flavour]); if (members) v->init = &lit(u8"42"); if (members > 1) v->decl_data.spec = lex.static_specifier() | lex.constexpr_specifier(); d = v; break; }
               case 1: { auto* v = G.declare_field(nm, *types[flavour]); if (members) v->init = &lit(u8"42"); d = v; break; }
               case 2: { auto* v = G.declare_bitfield(nm, lex.int_type()); v->length = &lit(u8"5"); if (members) v->init = &lit(u8"1"); d = v; break; }
               case 3: { d = G.declare_alias(nm, *types[flavour]); break; }
               case 4: case 10: {
                  auto* c = lex.make_class(G); c->id = &nm;
                  if (flavour % 2) { auto* b = lex.make_class(G); b->id = &lex.get_identifier(u8"Base"); c->declare_base(*b); if (flavour == 3) c->declare_base(lex.int_type()); }
                  fill_udt(c);
                  if (kind == 10) { auto* inner = lex.make_class(c->body); inner->id = &lex.get_identifier(u8"Inner"); fill_udt(inner); c->declare_type(inner->id.get(), lex.class_type())->init = inner; }
                  auto* t = G.declare_type(nm, lex.class_type()); t->init = c; d = t; break;
               }
               case 5: { auto* u = lex.make_union(G); u->id = &nm; fill_udt(u); auto* t = G.declare_type(nm, lex.union_type()); t->init = u; d = t; break; }
               case 6: {
                  auto* e = lex.make_enum(G, flavour % 2 ? ipr::Enum::Kind::Scoped : ipr::Enum::Kind::Legacy); e->id = &nm;
                  for (int i = 0; i < members; ++i) { auto* en = e->add_member(name(i)); if ((i + flavour) % 2) en->init = &lit(u8"7"); }
                  auto* t = G.declare_type(nm, lex.enum_type()); t->init = e; d = t; break;
               }
               case 7: {
                  auto* n = lex.make_namespace(G); n->id = &nm; fill_udt(n);
                  if (flavour > 1) { auto* in = lex.make_namespace(n->body); in->id = &lex.get_identifier(u8"inner"); fill_udt(in); n->declare_type(in->id.get(), lex.namespace_type())->init = in; }
                  auto* t = G.declare_type(nm, lex.namespace_type()); t->init = n; d = t; break;
               }
               case 8: {
                  ipr::impl::Warehouse<ipr::Type> w; for (int i = 0; i < flavour; ++i) w.push_back(*types[i]);
                  auto& ft = lex.get_function(lex.get_product(w), lex.int_type());
                  auto* f = G.declare_fun(nm, ft);
                  auto* m = lex.make_mapping(G, ipr::Mapping_level{ 0 });
                  for (int i = 0; i < flavour; ++i) m->param(name(i), *types[i]);
                  m->typing = &ft; m->body = body_block(m->inputs.region());
                  f->data.emplace<1>(m); d = f; break;
               }
               case 9: {
                  ipr::impl::Warehouse<ipr::Type> w; w.push_back(lex.typename_type()); if (flavour % 2) w.push_back(lex.int_type());
                  auto& fa = lex.get_forall(lex.get_product(w), lex.class_type());
                  auto* t = G.declare_primary_template(nm, fa);
                  auto* m = lex.make_mapping(G, ipr::Mapping_level{ 0 });
                  m->param(lex.get_identifier(u8"T"), lex.typename_type()); if (flavour % 2) m->param(lex.get_identifier(u8"N"), lex.int_type());
                  m->typing = &fa; m->body = types[members];
                  t->init = m; d = t; break;
               }
               }
               for (int ep : { EP_decl, EP_stmt, EP_expr })
                  for (int indent : { 0, 6 }) {
                     Observation o = print_case(lex, ep, *d, nullptr, *located, indent);
                     rep.count("states");
                     const std::string nmz = std::string("a complete ") + decl_kind[kind] + " declaration with " + std::to_string(members) + " members (flavour " + std::to_string(flavour) + ", initial indentation " + std::to_string(indent) + ") through " + ep_name[ep];
                     judge(std::string("declaration:") + decl_kind[kind] + ":" + ep_name[ep], nmz, o, "", ep != EP_expr, kind * 100 + members * 10 + flavour,
                           vf::JObj{}.str("pass", "C18").str("family", "declaration").raw("ops", vf::jarr(std::vector<long long>{ kind, members, flavour, ep, indent })).done());
                     if (o.outcome == "completed") rep.count("declarations_printed_to_completion"); else rep.member("declarations_refused", decl_kind[kind]);
                  }
            }
      rep.count("traces");
   }

   void tree_sweep()
   {
      const bool deep = opt.thorough();
      make_tree_table(3);
      const long long full = (long long) trees.size();
      // depth 4 (thorough): every unary form over every depth-3 tree, every binary form with one depth-3 child and one leaf
      if (deep) {
         const int lo = depth_end[1], hi = depth_end[2];
         for (int f = NLEAF; f < NUNARY_END; ++f) for (int a = lo; a < hi; ++a) trees.push_back({ f, a });
         for (int f = NUNARY_END; f < NFORMS; ++f)
            for (int a = lo; a < hi; ++a) for (int l = 0; l < NLEAF; ++l) { trees.push_back({ f, a, l }); trees.push_back({ f, l, a }); }
         depth_end.push_back(int(trees.size()));
      }
      for (long long t = 0; t < (long long) trees.size(); ++t) {
         if (not opt.mine(t)) continue;
         if ((t & 0x3ff) == 0 and opt.expired()) { rep.cap("deadline during the statement-tree sweep at tree " + std::to_string(t)); break; }
         check_tree(int(t), 0);
         if (t < full) check_tree(int(t), 6);
         if (t < depth_end[1]) { check_tree(int(t), 31); check_tree(int(t), 64); check_tree(int(t), 255); }      // deeply nested contexts
      }
      if (opt.shard == 0) rep.info("statement_trees", vf::JObj{}.num("complete_to_depth", 3).num("trees_depth_le_3", full).num("trees_total", (long long) trees.size()).done());
      rep.count("traces");
   }
}

int main(int argc, char** argv)
{
   opt = vf::parse_options(argc, argv);
   vf::install_crash_handler(opt, "C18");
   verbose = not opt.replay.empty();
   if (verbose) {
      auto text = vf::slurp(opt.replay);
      auto ops = vf::json_int_array(text, "ops");
      opt.shards = 1; opt.shard = 0;
      if (text.find("\"statement-tree\"") != std::string::npos and ops.size() >= 2) {
         opt.tier = "thorough";
         make_tree_table(3);
         tree_sweep();             // rebuilds the table deterministically; cheap enough to re-run in full
      }
      else if (text.find("\"literal\"") != std::string::npos) literal_sweep();
      else if (text.find("\"delimiter\"") != std::string::npos) delimiter_sweep();
      else if (text.find("\"declaration\"") != std::string::npos) declaration_sweep();
      else { std::printf("replay C18: zoo sweep with operand rotation %lld\n", ops.empty() ? 0 : ops[0]); zoo_sweep(ops.empty() ? 0 : int(ops[0])); }
      for (auto& [k, v] : rep.viols) std::printf("violated: %s  (%s)\n", k.c_str(), v.what.c_str());
      return rep.viols.empty() ? 0 : 1;
   }
   const int rots = opt.thorough() ? 4 : 1;
   for (int r = 0; r < rots; ++r) zoo_sweep(r);
   literal_sweep();
   if (opt.shard == 0) delimiter_sweep();
   declaration_sweep();
   tree_sweep();
   if (opt.shard == 0) {
      rep.info("space", vf::JObj{}.num("factory_rows", (long long) zoo::rows().size()).num("operand_rotations", rots).str("entry_points", "xpr_expr, xpr_stmt, xpr_decl for every expression node; xpr_type for every type node")
                           .str("literals", "256 single bytes + 225 ordered pairs + 45 mixed, each bare / as operand / as statement").str("delimiters", "5 delimiters x 5 contents x 3 contexts").done());
      rep.sample(vf::JObj{}.str("case", "make_promotion (Promotion) through xpr_expr").str("checked", "child process outcome (completed / logic_error / SIGSEGV / timeout), stream flags, decimal probe ' 10 9 F8:64:100', control bytes").done());
      rep.sample(vf::JObj{}.str("case", "statement try2(if-else(expr,return),labeled(break)) printed from indentation 0 and 6").str("checked", "Printer::indent() back to its initial value").done());
   }
   rep.write(opt);
   return 0;
}
